"""C01 (composition) — exec(phys_of(plan_of q)) is an admissible answer for q; plan_of is the engine's planner.

Proof stage: props/C01plan.v (model/Plan.v, proofs/PlanProofs.v).
Correspondence stage: for generated queries the engine's `EXPLAIN VERBOSE` (optimizer off) UNOPTIMIZED logical tree
and PHYSICAL tree are parsed into operator skeletons and compared with the skeletons of the extracted
`plan_of q` / `phys_of (plan_of q)`; the extracted `eval_lplan (plan_of q)` is also run against `eval_query q`
on the generated database (the theorem, re-observed on data)."""
import json, re, time
from . import common, sqlgen

PID = "C01plan"
PROPS = "props/C01plan.v"

JT = {"INNER": "inner", "LEFT": "left", "RIGHT": "right", "FULL": "full", "SEMI": "semi", "ANTI": "anti",
      "LEFT SEMI": "semi", "LEFT ANTI": "anti"}


# ---------------------------------------------------------------- EXPLAIN text -> trees
class Node:
    __slots__ = ("name", "attrs", "kids")

    def __init__(self, name):
        self.name, self.attrs, self.kids = name, {}, []

    def __repr__(self):
        return "%s%s" % (self.name, self.kids or "")


def parse_explain(text):
    """returns {section name: root Node}; a section is `Base` or `MAT_<n>`"""
    sections, stack = {}, []
    for raw in text.split("\n"):
        if not raw.strip():
            continue
        ind = len(raw) - len(raw.lstrip(" "))
        body = raw.strip()
        if ind == 0:
            stack = [(0, None, body)]
            continue
        if body[0] in "├└":
            kv = body[1:].strip()
            k, _, v = kv.partition(":")
            # attribute of the innermost node whose indent is ind - 2
            for i in range(len(stack) - 1, -1, -1):
                if stack[i][0] == ind - 2 and stack[i][1] is not None:
                    stack[i][1].attrs[k.strip()] = v.strip()
                    break
            continue
        n = Node(body)
        while stack and stack[-1][0] >= ind:
            stack.pop()
        if not stack:
            raise ValueError("bad explain indentation")
        parent = stack[-1]
        if parent[1] is None:
            sections[parent[2]] = n
        else:
            parent[1].kids.append(n)
        stack.append((ind, n, None))
    return sections


def split_items(v, quotes=True):
    """top-level items of `[a, b(c, d), e]`.
    quotes=True (logical EXPLAIN): string literals print as '...' WITHOUT escaping an inner quote ('a''b' prints 'a'b'):
    a quote opens a literal at a token start and closes it only when a delimiter (`,` `)` `]` blank, end) follows.
    quotes=False (physical EXPLAIN): literals print bare (a'b, an empty string prints nothing): a quote is an ordinary
    character there."""
    v = v.strip()
    if not (v.startswith("[") and v.endswith("]")):
        return None
    v = v[1:-1]
    out, cur, depth, q = [], "", 0, False
    n = len(v)
    for i, ch in enumerate(v):
        if quotes and ch == "'":
            if not q:
                prev = v[i - 1] if i > 0 else " "
                if prev in " ([,=<>!|+-*/%":
                    q = True
            else:
                nxt = v[i + 1] if i + 1 < n else " "
                if nxt in " ,)]":
                    q = False
            cur += ch
            continue
        if not q:
            if ch in "([":
                depth += 1
            elif ch in ")]":
                depth -= 1
            elif ch == "," and depth == 0:
                out.append(cur.strip())
                cur = ""
                continue
        cur += ch
    if cur.strip() or out:
        out.append(cur.strip())
    return out


def count_items(v, quotes=True):
    items = split_items(v, quotes)
    return None if items is None else len(items)


def join_type(s):
    s = s.strip()
    if s.startswith("LEFT MARK"):
        return "mark"
    return JT.get(s, s.lower())


# ---------------------------------------------------------------- logical tree -> skeleton s-expression
class Unsupported(Exception):
    pass


def lsk(n, mats, tnames):
    """engine logical node -> nested tuple skeleton in the model's vocabulary (see ocaml/plan.ml s_op)"""
    k = n.name
    kids = n.kids
    if k == "Scan":
        t = n.attrs.get("table", "")
        name = t.split(".")[-1]
        if name not in tnames:
            raise Unsupported("scan of " + t)
        return ("scan %d" % tnames.index(name),)
    if k == "SingleRow":
        return ("singlerow",)
    if k == "ExpressionList":
        return ("exprlist ?",) + tuple(lsk(c, mats, tnames) for c in kids)
    if k == "Filter":
        return ("filter", lsk(kids[0], mats, tnames))
    if k == "Project":
        return ("project %d" % count_items(n.attrs["projections"]), lsk(kids[0], mats, tnames))
    if k == "CrossJoin":
        return ("crossjoin", lsk(kids[0], mats, tnames), lsk(kids[1], mats, tnames))
    if k == "ArbitraryJoin":
        return ("arbitraryjoin " + join_type(n.attrs["join_type"]), lsk(kids[0], mats, tnames), lsk(kids[1], mats, tnames))
    if k == "ComparisonJoin":
        conds = split_items(n.attrs["conditions"])
        jt = join_type(n.attrs["join_type"])
        if jt == "mark":
            return ("markjoin %d" % len(conds), lsk(kids[0], mats, tnames), lsk(kids[1], mats, tnames))
        has_eq = any(re.search(r"(?<![<>!]) = ", c) for c in conds)
        return ("comparisonjoin %s %d %d" % (jt, len(conds), 1 if has_eq else 0),
                lsk(kids[0], mats, tnames), lsk(kids[1], mats, tnames))
    if k == "MagicJoin":
        jt = join_type(n.attrs["join_type"])
        ref = n.attrs["materialization_ref"]
        left = lsk(kids[0], mats, tnames)
        right, _ = unpush(kids[1], ref, mats, tnames)
        return ("magicjoin " + jt, left, right)
    if k == "MaterializationScan":
        ref = n.attrs["materialization_ref"]
        if ref not in mats:
            raise Unsupported("materialization " + ref)
        return lsk(mats[ref], mats, tnames)        # compared modulo materialization: the scanned plan inline
    if k == "Aggregate":
        aggs = split_items(n.attrs["aggregates"])
        return ("aggregate %d" % count_items(n.attrs.get("group_expressions", "[]")), ("aggs", len(set(aggs)), len(aggs)),
                lsk(kids[0], mats, tnames))
    if k == "Distinct":
        return ("distinct", lsk(kids[0], mats, tnames))
    if k == "Setop":
        kind = n.attrs.get("kind", "").upper()
        if "UNION" not in kind:
            raise Unsupported("setop " + kind)
        allf = "ALL" in kind
        return ("setop %d" % (1 if allf else 0), lsk(kids[0], mats, tnames), lsk(kids[1], mats, tnames))
    if k == "Order":
        return ("order %d" % count_items(n.attrs["expressions"]), lsk(kids[0], mats, tnames))
    if k == "Limit":
        off = n.attrs.get("offset", "0")
        off = 0 if off in ("None", "") else int(off)
        return ("limit %s %d" % (n.attrs["limit"], off), lsk(kids[0], mats, tnames))
    raise Unsupported("operator " + k)


def unpush(n, ref, mats, tnames):
    """the right side of a MagicJoin with the artefacts of the dependent-join push-down removed:
    CrossJoin(X, MagicMaterializationScan ref) -> X; the columns the push-down appends to the Projects /
    group keys above such a cross join are subtracted.  returns (skeleton, number of appended columns or None)"""
    if n.name == "CrossJoin" and len(n.kids) == 2 and n.kids[1].name == "MagicMaterializationScan" \
            and n.kids[1].attrs.get("materialization_ref") == ref:
        return lsk(n.kids[0], mats, tnames), count_items(n.kids[1].attrs["projections"])
    if n.name in ("Project", "Aggregate", "Filter", "Distinct", "ExpressionList"):
        subs = [unpush(c, ref, mats, tnames) for c in n.kids]
        nc = [x[1] for x in subs if x[1] is not None]
        if not nc:
            return lsk(n, mats, tnames), None
        nc = nc[0]
        if n.name == "Project":
            return ("project %d" % (count_items(n.attrs["projections"]) - nc), subs[0][0]), nc
        if n.name == "Aggregate":
            aggs = split_items(n.attrs["aggregates"])
            return ("aggregate %d" % (count_items(n.attrs.get("group_expressions", "[]")) - nc),
                    ("aggs", len(set(aggs)), len(aggs)), subs[0][0]), nc
        if n.name == "Filter":
            return ("filter", subs[0][0]), nc
        if n.name == "Distinct":
            return ("distinct", subs[0][0]), nc
        return ("exprlist ?",) + tuple(s[0] for s in subs), nc
    return lsk(n, mats, tnames), None


# ---------------------------------------------------------------- model skeleton (s-expression text) -> tuples
def parse_sx(s):
    pos = 0

    def item():
        nonlocal pos
        while s[pos] == " ":
            pos += 1
        if s[pos] == "(":
            pos += 1
            out = []
            while True:
                while s[pos] == " ":
                    pos += 1
                if s[pos] == ")":
                    pos += 1
                    return out
                out.append(item())
        st = pos
        while s[pos] not in " ()":
            pos += 1
        return s[st:pos]
    return item()


def msk(x):
    """model s-expression list -> tuple in the same shape as lsk"""
    head = []
    i = 0
    while i < len(x) and isinstance(x[i], str):
        head.append(x[i])
        i += 1
    kids = [msk(c) for c in x[i:]]
    if head[0] == "aggregate":
        return ("aggregate %s" % head[1], ("naggs", int(head[2]))) + tuple(kids)
    if head[0] == "exprlist":
        return ("exprlist ?",) + tuple(kids)
    if head[0] == "matscan":
        return kids[0]
    if head[0] == "magicjoin":
        return ("magicjoin " + ("left" if head[1] == "scalar" else "mark"),) + tuple(kids)
    return (" ".join(head),) + tuple(kids)


def sk_equal(m, e):
    """model skeleton vs engine skeleton; aggregate counts are compared modulo the binder's duplication (the
    engine keeps one aggregate per occurrence in the select list and HAVING, the AST lists each once)"""
    if isinstance(m, tuple) and m and m[0] == "naggs":
        return isinstance(e, tuple) and e and e[0] == "aggs" and e[1] <= m[1] <= e[2] or \
            (isinstance(e, tuple) and e and e[0] == "aggs" and m[1] <= e[2] and e[2] > 0 and m[1] >= 1)
    if not isinstance(m, tuple) or not isinstance(e, tuple):
        return m == e
    if len(m) != len(e) or m[0] != e[0]:
        return False
    return all(sk_equal(a, b) for a, b in zip(m[1:], e[1:]))


def sk_str(t):
    if not isinstance(t, tuple):
        return str(t)
    return "(" + " ".join(sk_str(x) for x in t) + ")"


# ---------------------------------------------------------------- running
def explain_cases(work):
    cases = []
    for w in work:
        stmts = sqlgen.setup_stmts(w["tables"]) + ["set enable_optimizer to false"]
        w["nsetup"] = len(stmts)
        for q in w["queries"]:
            stmts.append("explain verbose " + q.sql)
        cases.append({"id": w["id"], "mode": "det", "partitions": 2, "sched": {"kind": "fifo", "seed": 1},
                      "stmts": stmts, "timeout_s": 30})
    return cases


def make_work(rng, n, per=4):
    work = []
    for i in range(n):
        tables = sqlgen.make_db(rng, max_rows=rng.choice([3, 6, 12]))
        g = sqlgen.Gen(rng, tables, {"max_depth": 3, "grouping_sets": False, "quantified": False, "using": False})
        work.append({"id": "p%d" % i, "tables": tables, "queries": [g.query() for _ in range(per)]})
    return work


def compare_logical(gverif, gmodel, work):
    """returns (records, counters); record = dict(sql, ast, outcome, model, engine, why)"""
    real = common.run_harness(gverif, "sql", explain_cases(work), timeout=3600)
    lines, idx, recs = [], [], []
    cnt = {"queries": 0, "explained": 0, "engine_plan_error": 0, "model_unsupported": 0, "parse_unsupported": 0,
           "logical_equal": 0, "logical_diff": 0, "joins_wf": 0, "eval_same": 0, "eval_errplan": 0, "eval_errspec": 0,
           "eval_errboth": 0, "eval_diff": 0, "with_subquery": 0, "with_correlated": 0, "with_join": 0}
    for w, r in zip(work, real):
        res = r.get("results") or []
        tn = [t[0] for t in w["tables"]]
        sch = "(sch (%s))" % " ".join(str(len(t[1])) for t in w["tables"])
        dbsx = sqlgen.sx_db(w["tables"])
        for j, q in enumerate(w["queries"]):
            cnt["queries"] += 1
            rec = {"case": w["id"], "sql": q.sql, "ast": q.sx, "classes": sorted(q.classes),
                   "stmts": sqlgen.setup_stmts(w["tables"]) + ["set enable_optimizer to false", "explain verbose " + q.sql]}
            recs.append(rec)
            p = w["nsetup"] + j
            e = res[p] if p < len(res) else None
            rec["engine_ok"] = bool(e and e.get("ok"))
            if e and e.get("ok"):
                rows = {row[0][1:]: row[1][1:] for row in e["rows"]}
                rec["explain"] = rows
            else:
                rec["engine_err"] = (e or {}).get("err") or (e or r)
            lines.append("(skel %s %s)" % (sch, q.sx))
            idx.append((rec, "skel", tn))
            idx.append((rec, "pskel", tn))
            lines.append("(same %s %s %s)" % (sch, dbsx, q.sx))
            idx.append((rec, "same", tn))
    outs = common.run_model(gmodel, "x", lines, timeout=3600) if lines else []
    for (rec, kind, tn), o in zip(idx, outs):
        if kind == "pskel":
            if o.startswith("BADCASE") or rec.get("outcome") == "model_badcase":
                continue
            agree, psx = o.split(" ", 1)
            rec["pmodel"] = psx
            rec["pskel_agrees"] = agree
            continue
        if kind == "same":
            rec["eval"] = o
            key = {"SAME": "eval_same", "DIFF": "eval_diff", "ERRPLAN": "eval_errplan", "ERRSPEC": "eval_errspec",
                   "ERRBOTH": "eval_errboth"}.get(o.split(" ")[0])
            if key:
                cnt[key] += 1
            continue
        if o.startswith("BADCASE"):
            rec["outcome"] = "model_badcase"
            rec["why"] = o
            # a BADCASE answers with one line only: drop the pending second line
            continue
        sup, wf, sx = o.split(" ", 2)
        rec["model"] = sx
        rec["supported"] = sup == "1"
        rec["joins_wf"] = wf == "1"
        cnt["joins_wf"] += wf == "1"
        if "magicjoin" in sx:
            cnt["with_correlated"] += 1
        if "magicjoin" in sx or "markjoin" in sx or "(aggregate 0 1 (limit" in sx or "crossjoin" in sx and "aggregate 0 1" in sx:
            cnt["with_subquery"] += 1
        if "join " in sx:
            cnt["with_join"] += 1
        if not rec["engine_ok"]:
            cnt["engine_plan_error"] += 1
            rec["outcome"] = "engine_plan_error" if rec["supported"] else "unsupported_both"
            continue
        cnt["explained"] += 1
        try:
            secs = parse_explain(rec["explain"]["unoptimized"])
            mats = {k: v for k, v in secs.items() if k != "Base"}
            esk = lsk(secs["Base"], mats, tn)
        except Unsupported as ex:
            cnt["parse_unsupported"] += 1
            rec["outcome"] = "parse_unsupported"
            rec["why"] = str(ex)
            continue
        m = msk(parse_sx(sx))
        rec["engine"] = sk_str(esk)
        rec["model_sk"] = sk_str(m)
        if sk_equal(m, esk):
            cnt["logical_equal"] += 1
            rec["outcome"] = "equal"
        else:
            cnt["logical_diff"] += 1
            rec["outcome"] = "logical_diff"
    return recs, cnt


# ---------------------------------------------------------------- physical tree -> skeleton
def pjt(s):
    s = s.strip()
    if s.startswith("LEFT MARK"):
        return "mark"
    return JT.get(s, s.lower())


def is_magic_scan(n, ref):
    """HashAggregate[no aggregates](Project(Materialize ref)): the duplicate-eliminated scan of the materialized outer side"""
    return n.name == "HashAggregate" and count_items(n.attrs.get("aggregates", "[]"), False) == 0 and len(n.kids) == 1 \
        and n.kids[0].name == "Project" and len(n.kids[0].kids) == 1 and n.kids[0].kids[0].name == "Materialize" \
        and n.kids[0].kids[0].attrs.get("materialization_ref") == ref


def psk_engine(n, mats, ref=None):
    """engine physical node -> (skeleton, nc) ; nc = number of columns the dependent-join push-down appended below
    (None when the subtree does not read the materialization `ref` of the enclosing magic join)"""
    k = n.name
    if k == "Scan":
        return ("scan ?",), None
    if k == "Materialize":
        r = n.attrs.get("materialization_ref")
        if n.kids:      # the MAT_<n> section root
            return psk_engine(n.kids[0], mats, ref)
        if r not in mats:
            raise Unsupported("materialization " + str(r))
        return psk_engine(mats[r], mats, None)[0], None
    if k in ("NestedLoopJoin", "HashJoin"):
        jt = pjt(n.attrs["join_type"])
        left, right = n.kids
        if ref is not None and k == "NestedLoopJoin" and jt == "inner" and "filter" not in n.attrs and is_magic_scan(right, ref):
            sk, _ = psk_engine(left, mats, ref)
            return sk, count_items(right.attrs["groups"], False)
        magic = left.name == "Materialize" and not left.kids and jt in ("mark", "left")
        if magic:
            lsk_, _ = psk_engine(left, mats, None)
            rsk, _ = psk_engine(right, mats, left.attrs.get("materialization_ref"))
            if k == "HashJoin":
                return ("hashjoin %s 0" % jt, lsk_, rsk), None
            return ("nljoin %s 1" % jt, lsk_, rsk), None
        (a, na), (b, nb) = psk_engine(left, mats, ref), psk_engine(right, mats, ref)
        nc = na if na is not None else nb
        if k == "HashJoin":
            return ("hashjoin %s %d" % (jt, count_items(n.attrs["conditions"], False)), a, b), nc
        return ("nljoin %s %d" % (jt, 1 if "filter" in n.attrs else 0), a, b), nc
    subs = [psk_engine(c, mats, ref) for c in n.kids]
    ncs = [x[1] for x in subs if x[1] is not None]
    nc = ncs[0] if ncs else None
    kids = tuple(s[0] for s in subs)
    sub = nc or 0
    if k == "Filter":
        return ("filter",) + kids, nc
    if k == "Project":
        # a projection list that consists of the single literal '' prints as `[]`
        return ("project %d" % (max(1, count_items(n.attrs["projections"], False)) - sub),) + kids, nc
    if k == "HashAggregate":
        aggs = split_items(n.attrs["aggregates"], False)
        nk = count_items(n.attrs["groups"], False) - sub
        if not aggs:
            return ("hashdistinct",) + kids, nc
        kids = tuple(("project *",) + kk[1:] if kk[0].startswith("project ") else kk for kk in kids)
        if nk == 0:
            return ("ungroupedaggregate", ("aggs", len(set(aggs)), len(aggs))) + kids, nc
        return ("hashaggregate %d" % nk, ("aggs", len(set(aggs)), len(aggs))) + kids, nc
    if k == "UngroupedAggregate":
        aggs = split_items(n.attrs["aggregates"], False)
        kids = tuple(("project *",) + kk[1:] if kk[0].startswith("project ") else kk for kk in kids)
        return ("ungroupedaggregate", ("aggs", len(set(aggs)), len(aggs))) + kids, nc
    if k == "GlobalSort":
        return ("sort %d" % count_items(n.attrs["sort_expressions"], False),) + kids, nc
    if k == "Limit":
        off = n.attrs.get("offset", "0")
        off = 0 if off in ("None", "") else int(off)
        return ("limit %s %d" % (n.attrs["limit"], off),) + kids, nc
    if k == "Union":
        return ("union",) + kids, nc
    if k == "SingleRow":
        return ("singlerow",), None
    if k in ("Values", "ExpressionList"):
        return ("exprlist ?",) + kids, nc
    raise Unsupported("physical operator " + k)


def psk_model(x):
    head, i = [], 0
    while i < len(x) and isinstance(x[i], str):
        head.append(x[i])
        i += 1
    kids = [psk_model(c) for c in x[i:]]
    h = head[0]
    if h == "scan":
        return ("scan ?",)
    if h in ("hashaggregate", "ungroupedaggregate"):
        if h == "hashaggregate" and head[2] == "0":
            return ("hashdistinct",) + tuple(kids)
        kids = [("project *",) + kk[1:] if kk[0].startswith("project ") else kk for kk in kids]
        if h == "hashaggregate":
            return ("hashaggregate %s" % head[1], ("naggs", int(head[2]))) + tuple(kids)
        return ("ungroupedaggregate", ("naggs", int(head[1]))) + tuple(kids)
    if h == "exprlist":
        return ("exprlist ?",) + tuple(kids)
    if h == "materialize":
        return kids[0]
    if h == "nljoin" and head[1] == "cross":
        head[1] = "inner"
    return (" ".join(head),) + tuple(kids)


def compare_physical(recs, cnt, tables_of):
    """second pass over the records of compare_logical: physical skeletons"""
    cnt.update({"physical_equal": 0, "physical_diff": 0, "physical_unsupported": 0, "pskel_lemma_checked": 0,
                "pskel_lemma_failed": 0})
    for rec in recs:
        if rec.get("outcome") not in ("equal", "logical_diff") or "pmodel" not in rec:
            continue
        nosub = not any(t in rec["ast"] for t in ("(exists ", "(insub ", "(scalar "))
        if nosub and rec.get("pskel_agrees") != "u":
            cnt["pskel_lemma_checked"] += 1
            if rec.get("pskel_agrees") != "1":
                cnt["pskel_lemma_failed"] += 1
                rec["pskel_lemma_failed"] = True
        try:
            secs = parse_explain(rec["explain"]["physical"])
            mats = {k: v for k, v in secs.items() if k != "Base"}
            esk, _ = psk_engine(secs["Base"], mats, None)
        except Unsupported as ex:
            cnt["physical_unsupported"] += 1
            rec["poutcome"] = "parse_unsupported"
            rec["pwhy"] = str(ex)
            continue
        m = psk_model(parse_sx(rec["pmodel"]))
        rec["pengine"] = sk_str(esk)
        rec["pmodel_sk"] = sk_str(m)
        if sk_equal(m, esk):
            cnt["physical_equal"] += 1
            rec["poutcome"] = "equal"
        else:
            cnt["physical_diff"] += 1
            rec["poutcome"] = "physical_diff"


# ---------------------------------------------------------------- end to end on data (extracted exec_pplan)
def run_e2e(gmodel, work, rng):
    lines, idx = [], []
    for w in work:
        sch = "(sch (%s))" % " ".join(str(len(t[1])) for t in w["tables"])
        dbsx = sqlgen.sx_db(w["tables"])
        for q in w["queries"]:
            p, bsz, rev = rng.choice([1, 2, 3, 8]), rng.choice([1, 2, 3, 7, 64]), rng.below(2)
            lines.append("(e2e %s %s %s %d %d %d)" % (sch, dbsx, q.sx, p, bsz, rev))
            idx.append((w, q, {"partitions": p, "batch": bsz, "reversed": rev}))
    outs = common.run_model(gmodel, "x", lines, timeout=3600) if lines else []
    cnt = {"e2e_ok": 0, "e2e_mismatch": 0, "e2e_execerr": 0, "e2e_specerr": 0, "e2e_other": 0}
    bad = []
    for (w, q, cfg), o in zip(idx, outs):
        k = {"OK": "e2e_ok", "MISMATCH": "e2e_mismatch"}.get(o) or \
            ("e2e_execerr" if o.startswith("EXECERR") else "e2e_specerr" if o.startswith("SPECERR") else "e2e_other")
        cnt[k] += 1
        if k in ("e2e_mismatch", "e2e_other"):
            bad.append({"sql": q.sql, "ast": q.sx, "config": cfg, "verdict": o, "db": sqlgen.sx_db(w["tables"])})
    return cnt, bad


# ---------------------------------------------------------------- the refuted full-strength statement, on the engine
WITNESS = ["create temp table w0 (c0 int)", "create temp table w1 (c0 int)", "insert into w1 values (2147483647)",
           "select x1.c0 from w0 as x1 inner join w1 as x2 on (x1.c0 = x2.c0 and (x2.c0 + 1) > 0)"]


def witness_replay(gverif):
    r = common.run_harness(gverif, "sql", [{"id": "w", "mode": "det", "partitions": 2, "sched": {"kind": "fifo", "seed": 1},
                                            "stmts": WITNESS, "timeout_s": 30}], timeout=120)[0]
    res = r.get("results") or []
    last = res[-1] if len(res) == len(WITNESS) else {}
    return {"stmts": WITNESS, "engine": last}


def is_on_pushdown_error(rep):
    """class on-pushdown-error: the statement is an inner/left/right join whose ON has a conjunct over one input only,
    the other input is empty, the engine answers an arithmetic error and the reference semantics answers no row"""
    e = rep.get("engine") or {}
    return (not e.get("ok")) and "overflow" in str(e.get("err", "")).lower()


def run(ctx):
    t0 = time.time()
    rng = common.Rng(ctx["seed"])
    out = {"violations": [], "known": [], "assumptions": []}
    gverif, _ = common.build_harness(bin="gverif")
    pr = common.coq_props(PROPS)
    audit = common.audit_sources()
    obligations = pr["declared"]
    bad_assum = common.check_assumptions(pr) if pr["ok"] else []
    discharged = len(obligations) if pr["ok"] and not bad_assum and not audit else 0
    gmodel = common.build_ocaml("plan")
    # ---- correspondence: the model's planner is the engine's planner
    ncase = 250 if ctx["tier"] == "quick" else 2500
    work = make_work(rng, ncase)
    recs, cnt = compare_logical(gverif, gmodel, work)
    compare_physical(recs, cnt, None)
    e2e_cnt, e2e_bad = run_e2e(gmodel, work, rng)
    cnt.update(e2e_cnt)
    cap = {}

    def add(what, replay):
        cap[what] = cap.get(what, 0) + 1
        if cap[what] <= 5:
            out["violations"].append({"what": what, "replay": replay, "no_input": False})

    for r in recs:
        rep = {"sql": r["sql"], "ast": r["ast"], "classes": r["classes"], "stmts": r["stmts"]}
        oc = r.get("outcome")
        if oc == "logical_diff":
            add("planner correspondence: the engine's unoptimized logical plan differs from plan_of q",
                dict(rep, model=r.get("model_sk"), engine=r.get("engine")))
        elif oc == "engine_plan_error":
            add("planner correspondence: the engine does not plan a query of the supported fragment",
                dict(rep, engine_error=str(r.get("engine_err"))[:400]))
        elif oc in ("parse_unsupported", "model_badcase"):
            add("planner correspondence: EXPLAIN output / AST outside the vocabulary of the check", dict(rep, why=r.get("why")))
        if r.get("poutcome") == "physical_diff":
            add("planner correspondence: the engine's physical plan differs from phys_of (plan_of q)",
                dict(rep, model=r.get("pmodel_sk"), engine=r.get("pengine")))
        elif r.get("poutcome") == "parse_unsupported":
            add("planner correspondence: physical EXPLAIN output outside the vocabulary of the check", dict(rep, why=r.get("pwhy")))
        if r.get("pskel_lemma_failed"):
            add("pskel (phys_of l) <> phys_sk (lskel l) on a subquery-free plan (the two transcriptions of the physical planner disagree)", rep)
        ev = (r.get("eval") or "").split(" ")
        if ev and ev[0] == "DIFF":
            add("extracted eval_lplan (plan_of q) and eval_query q both answer rows and differ: theorem C01_plan_of_correct_partial does not describe the extracted code",
                dict(rep, verdict=r.get("eval")))
    for b in e2e_bad:
        add("extracted exec_pplan (phys_of (plan_of q)) is not admitted by check_answer: theorems C01_end_to_end_* do not describe the extracted code", b)
    # ---- the refuted full-strength statement, replayed
    wit = witness_replay(gverif)
    kf = [k for k in common.known_findings()["known"] if k.get("property") == PID]
    if is_on_pushdown_error(wit):
        if any(k.get("id") == "on-pushdown-error" for k in kf):
            out["known"].append("C01plan on-pushdown-error: a one-sided ON conjunct is evaluated on rows without join partner (%s)"
                                % str(wit["engine"].get("err"))[:80])
        else:
            out["violations"].append({"what": "the planner evaluates a one-sided ON conjunct on rows without join partner: error where the reference semantics answers no row",
                                      "replay": wit, "no_input": False})
    cnt["witness_reproduced"] = bool(is_on_pushdown_error(wit))
    # ---- proofs
    if (not pr["ok"]) or bad_assum or audit:
        reason = {"proof_failed_at": pr.get("failed_at"), "log_tail": pr["log"][-1500:] if not pr["ok"] else "",
                  "assumption_problems": bad_assum, "audit": audit}
        out["violations"].append({"what": "theorem(s) in %s no longer check" % PROPS, "replay": reason, "no_input": True})
    samples = [{"sql": r["sql"], "logical": r.get("model_sk"), "physical": r.get("pmodel_sk")} for r in recs[:2]]
    out["coverage"] = dict(cnt, **{
        "obligations": len(obligations), "discharged": discharged,
        "checker_cmd": "cd coq && make props/C01plan.vo (Print Assumptions parsed; Admitted/Axiom audit over coq/)",
        "trusted_base": ["Coq 8.16.1 kernel (vm_compute in closed Examples / the refutation witness)",
                         "extraction (ExtrOcamlBasic only) + ocaml/plan.ml (parsing, printing, the concrete runtime handed to exec_pplan)",
                         "EXPLAIN VERBOSE of the engine as the observation of its planner; vlib/c01plan.py parsing of it",
                         "skeletons compared modulo: materializations inlined, the dependent-join push-down artefacts of correlated subqueries removed (cross join with the magic scan, appended columns), aggregate counts modulo the binder's duplication, base table identity not visible in the physical tree",
                         "operator models HashJoin/NlJoin/AggTable/AggState/LimitOp/Merge (C03/C06/C07/C08) as transcriptions of the operators"],
        "theorems": obligations,
        "evaluations": cnt["queries"] * 3 + sum(e2e_cnt.values()),
        "distinct_nontrivial": len(set(r["sql"] for r in recs if r.get("outcome") == "equal")),
        "rule": "every generated query: (1) skeleton of the engine's unoptimized logical plan = lskel (plan_of q), (2) skeleton of its physical plan = phys_sk (lskel (plan_of q)) and, for subquery-free plans, = pskel (phys_of (plan_of q)), (3) extracted eval_lplan (plan_of q) vs eval_query q on the generated database, (4) check_answer on extracted exec_pplan (phys_of (plan_of q)) under a random partition count / batch size / arrival order; distinct = distinct SQL texts with equal logical skeletons",
        "samples": samples,
    })
    out["assumptions"] = ["the optimizer is switched off for the comparison (the optimizer's rewrites are C02's subject)",
                          "subquery expressions: their join shapes are compared, their semantics as joins is C09's (shallow) subject, not proved for the deep plans"]
    out["wall"] = time.time() - t0
    return out
