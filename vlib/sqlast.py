"""S-expression AST utilities for the SQL reference semantics (coq/model/Sql.v syntax) and the
AST rewrites that DEFINE the known-deviation classes of the engine (each class = "the engine's
answer equals the reference semantics of this rewritten query")."""


def parse(s):
    pos = 0
    n = len(s)

    def item():
        nonlocal pos
        while pos < n and s[pos] in " \t\n":
            pos += 1
        if s[pos] == "(":
            pos += 1
            out = []
            while True:
                while pos < n and s[pos] in " \t\n":
                    pos += 1
                if s[pos] == ")":
                    pos += 1
                    return out
                out.append(item())
        st = pos
        while pos < n and s[pos] not in " ()\t\n":
            pos += 1
        return s[st:pos]
    return item()


def show(a):
    if isinstance(a, list):
        return "(" + " ".join(show(x) for x in a) + ")"
    return a


EXPR_HEADS = {"const", "col", "cmp", "distinct", "and", "or", "not", "isnull", "arith", "neg", "case", "inlist",
              "exists", "insub", "scalar", "quant"}


def map_expr(e, fq, depth=0, fcol=None):
    """rebuild expression e; fq(query, depth_inside) rewrites nested queries; fcol rewrites column leaves"""
    h = e[0]
    if h == "col":
        return fcol(e) if fcol else e
    if h == "const":
        return e
    if h == "cmp":
        return [h, e[1], map_expr(e[2], fq, depth, fcol), map_expr(e[3], fq, depth, fcol)]
    if h == "distinct":
        return [h, e[1], map_expr(e[2], fq, depth, fcol), map_expr(e[3], fq, depth, fcol)]
    if h in ("and", "or"):
        return [h, map_expr(e[1], fq, depth, fcol), map_expr(e[2], fq, depth, fcol)]
    if h == "not":
        return [h, map_expr(e[1], fq, depth, fcol)]
    if h == "isnull":
        return [h, e[1], map_expr(e[2], fq, depth, fcol)]
    if h == "arith":
        return [h, e[1], e[2], map_expr(e[3], fq, depth, fcol), map_expr(e[4], fq, depth, fcol)]
    if h == "neg":
        return [h, e[1], map_expr(e[2], fq, depth, fcol)]
    if h == "case":
        return [h, [[map_expr(c, fq, depth, fcol), map_expr(t, fq, depth, fcol)] for c, t in e[1]], map_expr(e[2], fq, depth, fcol)]
    if h == "inlist":
        return [h, e[1], map_expr(e[2], fq, depth, fcol), [map_expr(x, fq, depth, fcol) for x in e[3]]]
    if h == "exists":
        return [h, e[1], fq(e[2], depth)]
    if h == "insub":
        return [h, e[1], map_expr(e[2], fq, depth, fcol), fq(e[3], depth)]
    if h == "quant":
        return [h, e[1], e[2], map_expr(e[3], fq, depth, fcol), fq(e[4], depth)]
    if h == "scalar":
        return [h, fq(e[1], depth)]
    raise ValueError(show(e))


def map_children(e, fe, fq):
    """rebuild e applying fe to every direct sub-expression and fq to every direct sub-query"""
    h = e[0]
    if h in ("const", "col"):
        return e
    if h in ("cmp", "distinct"):
        return [h, e[1], fe(e[2]), fe(e[3])]
    if h in ("and", "or"):
        return [h, fe(e[1]), fe(e[2])]
    if h == "not":
        return [h, fe(e[1])]
    if h in ("isnull", "neg"):
        return [h, e[1], fe(e[2])]
    if h == "arith":
        return [h, e[1], e[2], fe(e[3]), fe(e[4])]
    if h == "case":
        return [h, [[fe(c), fe(t)] for c, t in e[1]], fe(e[2])]
    if h == "inlist":
        return [h, e[1], fe(e[2]), [fe(x) for x in e[3]]]
    if h == "exists":
        return [h, e[1], fq(e[2])]
    if h == "insub":
        return [h, e[1], fe(e[2]), fq(e[3])]
    if h == "quant":
        return [h, e[1], e[2], fe(e[3]), fq(e[4])]
    if h == "scalar":
        return [h, fq(e[1])]
    raise ValueError(show(e))


def shift_expr(e, by, cutoff):
    """add `by` to the depth of every column reference with depth >= cutoff (free variables)"""
    def fcol(c):
        d = int(c[1])
        return ["col", str(d + by), c[2]] if d >= cutoff else c
    return map_expr(e, lambda q, _d: shift_query(q, by, cutoff), 0, fcol)


def opt(x, f):
    return x if x == "-" else f(x)


def shift_query(q, by, cutoff):
    """queries evaluate their expressions one level deeper (depth 0 = the block's own row)"""
    h = q[0]
    if h == "table":
        return q
    if h == "values":
        return [h, [[shift_expr(e, by, cutoff) for e in r] for r in q[1]]]
    if h == "select":
        f, wh, grp, hav, sel, dis = q[1:]
        c = cutoff + 1
        g = grp if grp == "-" else [[shift_expr(e, by, c) for e in grp[0]],
                                    [[a[0], a[1], shift_expr(a[2], by, c)] for a in grp[1]]]
        return [h, opt(f, lambda x: shift_from(x, by, cutoff)), opt(wh, lambda x: shift_expr(x, by, c)), g,
                opt(hav, lambda x: shift_expr(x, by, c)), [shift_expr(e, by, c) for e in sel], dis]
    if h == "union":
        return [h, q[1], shift_query(q[2], by, cutoff), shift_query(q[3], by, cutoff)]
    if h == "order":
        return [h, shift_query(q[1], by, cutoff)] + q[2:]
    raise ValueError(show(q))


def shift_from(f, by, cutoff):
    h = f[0]
    if h == "fq":
        return [h, shift_query(f[1], by, cutoff)]
    if h == "join":
        return [h, f[1], shift_from(f[2], by, cutoff), shift_from(f[3], by, cutoff),
                opt(f[4], lambda x: shift_expr(x, by, cutoff + 1)), f[5], f[6]]
    if h == "lateral":
        return [h, f[1], shift_from(f[2], by, cutoff), shift_query(f[3], by, cutoff + 1),
                opt(f[4], lambda x: shift_expr(x, by, cutoff + 1)), f[5]]
    raise ValueError(show(f))


def rewrite_query(q, fe):
    """apply expression rewriter fe bottom-up everywhere in query q"""
    def rq(q):
        h = q[0]
        if h == "table":
            return q
        if h == "values":
            return [h, [[re(e) for e in r] for r in q[1]]]
        if h == "select":
            f, wh, grp, hav, sel, dis = q[1:]
            g = grp if grp == "-" else [[re(e) for e in grp[0]], [[a[0], a[1], re(a[2])] for a in grp[1]]]
            return [h, opt(f, rf), opt(wh, re), g, opt(hav, re), [re(e) for e in sel], dis]
        if h == "union":
            return [h, q[1], rq(q[2]), rq(q[3])]
        if h == "order":
            return [h, rq(q[1])] + q[2:]
        raise ValueError(show(q))

    def rf(f):
        h = f[0]
        if h == "fq":
            return [h, rq(f[1])]
        if h == "join":
            return [h, f[1], rf(f[2]), rf(f[3]), opt(f[4], re), f[5], f[6]]
        if h == "lateral":
            return [h, f[1], rf(f[2]), rq(f[3]), opt(f[4], re), f[5]]
        raise ValueError(show(f))

    def re(e):
        return fe(map_children(e, re, rq))
    return rq(q)


def rewrite_blocks(q, fb, flat=None):
    """apply the SELECT-block rewriter fb bottom-up to every (select ..) node of query q;
    flat (optional) rewrites the subquery of every LATERAL item"""
    def rq(q):
        h = q[0]
        if h == "table":
            return q
        if h == "values":
            return [h, [[re(e) for e in r] for r in q[1]]]
        if h == "select":
            f, wh, grp, hav, sel, dis = q[1:]
            g = grp if grp == "-" else [[re(e) for e in grp[0]], [[a[0], a[1], re(a[2])] for a in grp[1]]]
            return fb([h, opt(f, rf), opt(wh, re), g, opt(hav, re), [re(e) for e in sel], dis])
        if h == "union":
            return [h, q[1], rq(q[2]), rq(q[3])]
        if h == "order":
            return [h, rq(q[1])] + q[2:]
        raise ValueError(show(q))

    def rf(f):
        h = f[0]
        if h == "fq":
            return [h, rq(f[1])]
        if h == "join":
            return [h, f[1], rf(f[2]), rf(f[3]), opt(f[4], re), f[5], f[6]]
        if h == "lateral":
            sub = rq(f[3])
            if flat:
                sub = flat(sub)
            return [h, f[1], rf(f[2]), sub, opt(f[4], re), f[5]]
        raise ValueError(show(f))

    def re(e):
        return map_children(e, re, rq)
    return rq(q)


def lateral_agg_empty(sub):
    """engine: a correlated LATERAL subquery that is a global aggregate is flattened into a grouped aggregate
    joined back with an inner join, so a left row whose subquery input is empty gets NO row instead of the
    aggregate's empty-input row (count 0, others NULL).  = the subquery HAVING count(*) > 0"""
    if sub[0] == "select" and sub[3] != "-" and sub[3][0] == [] and query_correlated(sub):
        f, wh, grp, hav, sel, dis = sub[1:]
        n = len(grp[1])
        g = [[], grp[1] + [["countstar", "0", ["const", "N"]]]]
        cnt = ["cmp", "gt", ["col", "0", str(n)], ["const", ["i", "0"]]]
        return ["select", f, wh, g, cnt if hav == "-" else ["and", hav, cnt], sel, dis]
    return sub


def gs_empty(b):
    """engine: the empty grouping set of ROLLUP/CUBE yields no grand-total row when its input is empty.
    The generator writes that block as a global aggregate whose projection starts with a NULL key
    (no other generated block has that shape); the deviation = that block HAVING count(*) > 0."""
    f, wh, grp, hav, sel, dis = b[1:]
    if grp != "-" and grp[0] == [] and hav == "-" and sel and sel[0] == ["const", "N"]:
        n = len(grp[1])
        g = [[], grp[1] + [["countstar", "0", ["const", "N"]]]]
        return ["select", f, wh, g, ["cmp", "gt", ["col", "0", str(n)], ["const", ["i", "0"]]], sel, dis]
    return b


# ---- known-deviation classes as rewrites -------------------------------------------------------

NEGOP = {"eq": "ne", "ne": "eq", "lt": "ge", "ge": "lt", "gt": "le", "le": "gt"}


def _quant_exists(op, a, q, wrap=None):
    a2 = shift_expr(a, 1, 0)
    c = ["cmp", op, a2, ["col", "0", "0"]]
    if wrap:
        c = wrap(c)
    return ["exists", "0", ["select", ["fq", q], c, "-", "-", [["const", ["b", "1"]]], "0"]]


def quant_expand(e):
    """(quant any|all op a q): pseudo-node of the generator for `a op ANY|ALL (q)`; SQL's three-valued
    definition in terms of constructs of the reference semantics:
      a op ANY q = TRUE if some row compares TRUE, else NULL if some comparison is NULL, else FALSE
      a op ALL q = NOT (a negop ANY q)"""
    if e[0] != "quant":
        return e
    kind, op, a, q = e[1], e[2], e[3], e[4]
    if kind == "all":
        return ["not", quant_expand(["quant", "any", NEGOP[op], a, q])]
    t, f, n = ["const", ["b", "1"]], ["const", ["b", "0"]], ["const", "N"]
    return ["case", [[_quant_exists(op, a, q), t],
                     [_quant_exists(op, a, q, lambda c: ["isnull", "0", c]), n]], f]


def expand_text(sx):
    """replace the generator's pseudo-nodes by constructs the extracted semantics knows"""
    if "(quant " not in sx:
        return sx
    return show(rewrite_query(parse(sx), quant_expand))


def in2v(e):
    """engine: `a [NOT] IN (subquery)` is two-valued (mark join): TRUE iff some row equals a, never NULL.
    = [NOT] EXISTS (SELECT 1 FROM (sub) s WHERE s.c0 = a)"""
    if e[0] == "insub":
        neg, a, q = e[1], e[2], e[3]
        a2 = shift_expr(a, 1, 0)
        return ["exists", neg, ["select", ["fq", q], ["cmp", "eq", ["col", "0", "0"], a2], "-", "-",
                                [["const", ["b", "1"]]], "0"]]
    if e[0] == "quant":
        # same mark join: `a op ANY (q)` is TRUE iff some row compares TRUE, never NULL; ALL = NOT (negop ANY)
        kind, op, a, q = e[1], e[2], e[3], e[4]
        if kind == "all":
            return ["not", _quant_exists(NEGOP[op], a, q)]
        return _quant_exists(op, a, q)
    return e


def query_correlated(q, cutoff=0):
    found = False

    def walk_e(e, c):
        nonlocal found
        if e[0] == "col":
            if int(e[1]) >= c:
                found = True
            return
        for x in e[1:]:
            walk_any(x, c)

    def walk_any(x, c):
        if isinstance(x, list) and x:
            h = x[0]
            if isinstance(h, str) and h in EXPR_HEADS:
                if h in ("exists",):
                    walk_q(x[2], c)
                elif h == "insub":
                    walk_e(x[2], c); walk_q(x[3], c)
                elif h == "quant":
                    walk_e(x[3], c); walk_q(x[4], c)
                elif h == "scalar":
                    walk_q(x[1], c)
                elif h == "case":
                    for cnd, t in x[1]:
                        walk_e(cnd, c); walk_e(t, c)
                    walk_e(x[2], c)
                elif h == "inlist":
                    walk_e(x[2], c)
                    for y in x[3]:
                        walk_e(y, c)
                else:
                    walk_e(x, c)
            else:
                for y in x:
                    walk_any(y, c)

    def walk_q(q, c):
        h = q[0]
        if h == "select":
            f, wh, grp, hav, sel, dis = q[1:]
            if f != "-":
                walk_f(f, c)
            for e in ([wh] if wh != "-" else []) + ([hav] if hav != "-" else []) + sel:
                walk_any(e, c + 1)
            if grp != "-":
                for e in grp[0]:
                    walk_any(e, c + 1)
                for a in grp[1]:
                    walk_any(a[2], c + 1)
        elif h == "union":
            walk_q(q[2], c); walk_q(q[3], c)
        elif h == "order":
            walk_q(q[1], c)
        elif h == "values":
            for r in q[1]:
                for e in r:
                    walk_any(e, c)

    def walk_f(f, c):
        if f[0] == "fq":
            walk_q(f[1], c)
        elif f[0] == "join":
            walk_f(f[2], c); walk_f(f[3], c)
            if f[4] != "-":
                walk_any(f[4], c + 1)
        elif f[0] == "lateral":
            walk_f(f[2], c); walk_q(f[3], c + 1)
            if f[4] != "-":
                walk_any(f[4], c + 1)
    walk_q(q, cutoff)
    return found


def lateral_nested_correlation(q):
    """structural class: some LATERAL subquery S contains a nested query (a subquery expression or a further
    LATERAL) that references a column from outside S (the lateral's left row or beyond), or S is correlated
    and contains a correlated nested query"""
    found = False

    def walk_any(x, c, nested):
        nonlocal found
        if not (isinstance(x, list) and x):
            return
        h = x[0]
        if isinstance(h, str) and h in EXPR_HEADS:
            if h == "col":
                if nested and int(x[1]) >= c:
                    found = True
            elif h == "exists":
                walk_q(x[2], c, True)
            elif h == "insub":
                walk_any(x[2], c, nested); walk_q(x[3], c, True)
            elif h == "quant":
                walk_any(x[3], c, nested); walk_q(x[4], c, True)
            elif h == "scalar":
                walk_q(x[1], c, True)
            elif h == "case":
                for cnd, t in x[1]:
                    walk_any(cnd, c, nested); walk_any(t, c, nested)
                walk_any(x[2], c, nested)
            elif h == "inlist":
                walk_any(x[2], c, nested)
                for y in x[3]:
                    walk_any(y, c, nested)
            elif h == "const":
                return
            else:
                for y in x[1:]:
                    walk_any(y, c, nested)
        else:
            for y in x:
                walk_any(y, c, nested)

    def walk_q(q, c, nested):
        h = q[0]
        if h == "select":
            f, wh, grp, hav, sel, dis = q[1:]
            if f != "-":
                walk_f(f, c, nested)
            for e in ([wh] if wh != "-" else []) + ([hav] if hav != "-" else []) + sel:
                walk_any(e, c + 1, nested)
            if grp != "-":
                for e in grp[0]:
                    walk_any(e, c + 1, nested)
                for a in grp[1]:
                    walk_any(a[2], c + 1, nested)
        elif h == "union":
            walk_q(q[2], c, nested); walk_q(q[3], c, nested)
        elif h == "order":
            walk_q(q[1], c, nested)

    def walk_f(f, c, nested):
        if f[0] == "fq":
            walk_q(f[1], c, nested)
        elif f[0] == "join":
            walk_f(f[2], c, nested); walk_f(f[3], c, nested)
            if f[4] != "-":
                walk_any(f[4], c + 1, nested)
        elif f[0] == "lateral":
            walk_f(f[2], c, nested); walk_q(f[3], c + 1, True)
            if f[4] != "-":
                walk_any(f[4], c + 1, nested)

    def nested_queries(x, top=True):
        """the query nodes nested inside query x (subquery expressions and further laterals)"""
        out = []
        if isinstance(x, list) and x:
            h = x[0]
            if h == "exists":
                out.append(x[2])
            elif h == "insub":
                out.append(x[3])
            elif h == "quant":
                out.append(x[4])
            elif h == "scalar":
                out.append(x[1])
            elif h == "lateral" and len(x) >= 6:
                out.append(x[3])
            for y in x:
                out += nested_queries(y, False)
        return out

    def scan(x):
        """find every lateral node anywhere and test its subquery"""
        nonlocal found
        if isinstance(x, list) and x:
            if x[0] == "lateral" and len(x) >= 6:
                walk_q(x[3], 0, False)
                # second shape: the lateral subquery is correlated itself and contains a correlated nested query
                # (whatever that one refers to)
                if query_correlated(x[3]) and any(query_correlated(n) for n in nested_queries(x[3])):
                    found = True
            for y in x:
                scan(y)
    scan(q)
    return found


def const_left_subquery(q):
    """structural class: some `a [NOT] IN (subquery)` / `a op ANY|ALL (subquery)` whose left operand a contains no
    column reference (a constant expression)"""
    def has_col(x):
        if isinstance(x, list) and x:
            if x[0] == "col":
                return True
            return any(has_col(y) for y in x)
        return False

    def scan(x):
        if isinstance(x, list) and x:
            if x[0] == "insub" and len(x) >= 4 and not has_col(x[2]):
                return True
            if x[0] == "quant" and len(x) >= 5 and not has_col(x[3]):
                return True
            return any(scan(y) for y in x)
        return False
    return scan(q)


def count_null(e):
    """engine: a CORRELATED scalar subquery that is a global aggregate is decorrelated with a LEFT join on
    the grouped aggregate, so an outer row without partner rows gets NULL for every aggregate, count included.
    = CASE WHEN EXISTS (rows feeding the aggregate) THEN (subquery) ELSE NULL END"""
    if e[0] == "scalar":
        q = e[1]
        if q[0] == "select" and q[3] != "-" and q[3][0] == [] and query_correlated(q):
            src = ["select", q[1], q[2], "-", "-", [["const", ["b", "1"]]], "0"]
            return ["case", [[["exists", "0", src], e]], ["const", "N"]]
    return e


def exists_agg_empty(e):
    """same decorrelation as count_null, seen through EXISTS: a CORRELATED global-aggregate subquery always has
    one row, so EXISTS over it is TRUE; the engine's grouped aggregate has no row for an outer row without
    partner rows.  = EXISTS (the rows feeding the aggregate)"""
    if e[0] == "exists":
        q = e[2]
        if q[0] == "select" and q[3] != "-" and q[3][0] == [] and q[4] == "-" and query_correlated(q):
            return ["exists", e[1], ["select", q[1], q[2], "-", "-", [["const", ["b", "1"]]], "0"]]
    return e


def _flat(e, head):
    if isinstance(e, list) and e and e[0] == head:
        return _flat(e[1], head) + _flat(e[2], head)
    return [e]


def _mk(head, items):
    out = items[0]
    for x in items[1:]:
        out = [head, out, x]
    return out


def dor_absorb(e):
    """engine (optimizer on): DistributiveOrRewrite pulls the conjuncts common to all disjuncts out of an OR;
    a disjunct that consists ONLY of common conjuncts is dropped instead of making the residual OR true, so
    `a OR (a AND b)` becomes `a AND b`.  This is the rule as written in expr_rewrite/distributive_or.rs."""
    if e[0] != "or":
        return e
    disj = _flat(e, "or")
    conj = [_flat(d, "and") for d in disj]
    common = [c for c in conj[0] if all(any(show(c) == show(x) for x in other) for other in conj[1:])]
    keys = set(show(c) for c in common)
    if not keys:
        return e
    seen, common_u = set(), []
    for c in common:
        if show(c) not in seen:
            seen.add(show(c)); common_u.append(c)
    new_children = []
    for cs in conj:
        rem = [c for c in cs if show(c) not in keys]
        if rem:
            new_children.append(_mk("and", rem))
    items = list(common_u)
    if len(new_children) == 1:
        items.append(new_children[0])
    elif len(new_children) > 1:
        items.append(_mk("or", new_children))
    return _mk("and", items)


# ---- what the engine's ConstFold rule does before DistributiveOrRewrite sees the expression ---------------

def _cv(e):
    """python value of a literal node: ('N',) | ('b', bool) | ('i', int) | ('s', bytes) | None"""
    if e[0] != "const":
        return None
    c = e[1]
    if c == "N":
        return ("N",)
    if isinstance(c, list) and len(c) >= 1:
        if c[0] == "b":
            return ("b", c[1] == "1")
        if c[0] == "i":
            return ("i", int(c[1]))
        if c[0] == "s":
            return ("s", bytes.fromhex(c[1]) if len(c) > 1 else b"")
    return None


def _mkb(v):
    return ["const", "N"] if v is None else ["const", ["b", "1" if v else "0"]]


def _b3(v):
    """three-valued boolean of a literal value, or 'x' if it is not boolean/NULL"""
    if v is None:
        return "x"
    if v[0] == "N":
        return None
    if v[0] == "b":
        return v[1]
    return "x"


FOLD_NULL_CMP = [True]


def cfold_node(e):
    """one bottom-up step of constant folding on closed boolean sub-expressions (children already folded);
    IN lists are desugared the way the binder does: a IN (x, y) = a = x OR a = y; a NOT IN = a <> x AND a <> y"""
    h = e[0]
    if h == "inlist" and e[3]:
        neg, a, xs = e[1], e[2], e[3]
        parts = [cfold_node(["cmp", "ne" if neg == "1" else "eq", a, x]) for x in xs]
        out = parts[0]
        for x in parts[1:]:
            out = cfold_node(["and" if neg == "1" else "or", out, x])
        return out
    if h == "cmp":
        a, b = _cv(e[2]), _cv(e[3])
        if a is None or b is None:
            return e
        if a[0] == "N" or b[0] == "N":
            # the binder wraps an untyped NULL operand in a cast, which ConstFold leaves alone in some
            # positions: both readings are tried (flavour "~nullcmp" keeps the comparison unfolded)
            return _mkb(None) if FOLD_NULL_CMP[0] else e
        if a[0] != b[0]:
            return e
        x, y = a[1], b[1]
        r = {"eq": x == y, "ne": x != y, "lt": x < y, "le": x <= y, "gt": x > y, "ge": x >= y}[e[1]]
        return _mkb(r)
    if h in ("and", "or"):
        a, b = _b3(_cv(e[1])), _b3(_cv(e[2]))
        if a == "x" or b == "x":
            return e
        if h == "and":
            r = False if (a is False or b is False) else (None if (a is None or b is None) else True)
        else:
            r = True if (a is True or b is True) else (None if (a is None or b is None) else False)
        return _mkb(r)
    if h == "not":
        a = _b3(_cv(e[1]))
        return e if a == "x" else _mkb(None if a is None else (not a))
    if h == "isnull":
        a = _cv(e[2])
        if a is None:
            return e
        isn = a[0] == "N"
        return _mkb((not isn) if e[1] == "1" else isn)
    return e


_DOR_FIRED = [0]


def dor_absorb_folded(e):
    """ConstFold, conjunction flattening, then the absorption of DistributiveOrRewrite (rule order of
    expr_rewrite/mod.rs): `('a' <> 'b' AND x) OR true` is `(true AND x) OR true` when the rule sees it"""
    f = cfold_node(e)
    g = dor_absorb(f)
    if show(g) != show(f):
        _DOR_FIRED[0] += 1
    return g


def dor_absorb_folded_nullcmp(e):
    FOLD_NULL_CMP[0] = False
    try:
        return dor_absorb_folded(e)
    finally:
        FOLD_NULL_CMP[0] = True


KNOWN_REWRITES = {
    "in-subquery-two-valued": in2v,
    "correlated-scalar-aggregate-null-on-empty": count_null,
    "correlated-scalar-aggregate-null-on-empty~exists": exists_agg_empty,
    "distributive-or-absorption": dor_absorb_folded,
    "distributive-or-absorption~nullcmp": dor_absorb_folded_nullcmp,
    "grouping-sets-empty-input-no-grand-total": ("block", gs_empty),
    "lateral-global-aggregate-empty-input-no-row": ("lateral", lateral_agg_empty),
}


def apply_rewrite(q, fe):
    if isinstance(fe, tuple):
        if fe[0] == "lateral":
            return rewrite_blocks(q, lambda b: b, flat=fe[1])
        return rewrite_blocks(q, fe[1])
    return rewrite_query(q, fe)


def variants(sx):
    """{class id: rewritten query text} for the classes whose rewrite changes the query"""
    out = _variants(sx)
    return {k: expand_text(v) for k, v in out.items()}


def _variants(sx):
    q = parse(sx)
    out = {}
    for cid, fe in KNOWN_REWRITES.items():
        _DOR_FIRED[0] = 0
        r = show(apply_rewrite(q, fe))
        if r != show(q) and (fe not in (dor_absorb_folded, dor_absorb_folded_nullcmp) or _DOR_FIRED[0]):
            out[cid] = r
    ids = list(out)
    # combinations (the deviations are independent): all subsets of size >= 2 of the applicable classes
    import itertools
    for k in range(2, len(ids) + 1):
        for combo in itertools.combinations(ids, k):
            r = q
            for cid in combo:
                r = apply_rewrite(r, KNOWN_REWRITES[cid])
            t = show(r)
            if t not in out.values():
                out["+".join(combo)] = t
    return out
