"""C17 — Reading a CSV file returns the RFC-4180 records with inferred types."""
import json, os, re, struct, time
from . import common

PID = "C17"
PROPS = "props/C17.v"
CSVDIR = os.path.join(common.WORK, "csv")
DIALECTS = [(44, 34), (124, 34), (59, 34), (9, 34), (44, 39), (124, 39), (59, 39), (9, 39)]
BOM = b"\xef\xbb\xbf"

# ------------------------------------------------------------------ known-finding classes (findings/C17.json)
# (repaired in /repo and therefore violations again if they return: unterminated-last-record,
#  clear-completed-drops-empty-leading-fields, multi-file-unterminated-carry-over,
#  boolean-word-mixed-column, inference-sample-without-end-of-input, bom-split-across-first-read,
#  multi-file-bom-in-later-file, sample-without-data-record; their witnesses are replayed in every run: stage_regress
#  through SQL, the BOM witnesses as hand-picked decoder cases (every 1- and 2-cut chunking) and reader cases with
#  read buffers 1 and 2, the multi-file witnesses as the `mf` cases of stage_sql (also against the queue model).
#  Not findings (definitional; the spec follows the documented engine behaviour): blank lines are skipped (csv_core
#  documents it, slt/csv/infer/empty_middle_line.slt pins it); an empty field in the first record fails its typed
#  column and so marks a header (reader.rs module doc, slt/csv/infer/empty_header_names.slt).)


# ------------------------------------------------------------------ constants of ReadCsv::bind, read from the source
def bind_consts():
    """(INFER_BUF_SIZE, MAX_INFER_BUF_SIZE) of crates/glaredb_ext_csv/src/functions/read_csv.rs; None if not found"""
    try:
        src = open(os.path.join(common.REPO, "crates/glaredb_ext_csv/src/functions/read_csv.rs")).read()
    except OSError:
        return None
    out = []
    for name in ("INFER_BUF_SIZE", "MAX_INFER_BUF_SIZE"):
        m = re.search(r"const %s: usize = ([0-9 *]+);" % name, src)
        if not m:
            return None
        v = 1
        for t in m.group(1).split("*"):
            v *= int(t.strip())
        out.append(v)
    return tuple(out)


CONSTS = bind_consts() or (4096, 4 * 1024 * 1024)
INIT, MAXBUF = CONSTS


# ------------------------------------------------------------------ generators
def rand_field(rng, kind, delim, quote):
    """-> (content bytes, must_quote)"""
    if rng.chance(12):
        return b"", False
    if kind == "bool":
        return rng.choice([b"t", b"true", b"TRUE", b"T", b"f", b"false", b"FALSE", b"F"]), False
    if kind == "int":
        return rng.choice([b"0", b"1", b"-1", b"+7", b"42", b"007", b"9223372036854775807", b"-9223372036854775808",
                           str(rng.below(100000)).encode(), str(-rng.below(1000)).encode()]), False
    if kind == "bigint":  # not an i64: a float by the lattice
        return rng.choice([b"9223372036854775808", b"-9223372036854775809", b"123456789012345678901234567890"]), False
    if kind == "float":
        return rng.choice([b"1.5", b"-0.25", b"1e5", b"1.", b".5", b"+.5e-3", b"1E+2", b"nan", b"NaN", b"inf", b"-inf",
                           b"Infinity", b"3", b"1e400", b"0.1", b"2.5e-320",
                           ("%d.%d" % (rng.below(1000), rng.below(1000))).encode()]), False
    # text
    pool = [b"a", b"abc", b"hello world", "été".encode(), "日本".encode(), "\U0001F600".encode(),
            b"x y", b" lead", b"trail ", b"1x", b"tru", b"1e", b"e5", b".", b"+", b"-", b"1_0", b"0x10", b"in", b"na",
            b"NULL", b"null", b"#", b"\\", b"a\\b", b"~"]
    r = rng.below(100)
    if r < 55:
        return rng.choice(pool), False
    d, q = bytes([delim]), bytes([quote])
    if r < 65:
        return rng.choice(pool) + d + rng.choice(pool), True
    if r < 75:
        return rng.choice([q, b"a" + q, q + b"b", b"a" + q + q + b"b", q + q]), True
    if r < 85:
        return rng.choice([b"l1\nl2", b"l1\r\nl2", b"\n", b"a\rb", b"\r\n"]), True
    if r < 92:
        other = [x for x in (44, 124, 59, 9, 34, 39) if x not in (delim, quote)]
        return b"o" + bytes([rng.choice(other)]) + b"p", False
    return d + q + b"\n" + "é".encode() + q + d, True


def gen_file(rng, size="small"):
    """A well-formed file (valid encoding): returns dict(bytes, delim, quote, header, ...)."""
    delim, quote = rng.choice(DIALECTS)
    ncols = rng.choice([1, 2, 2, 3, 3, 4, 5])
    kinds = [rng.choice(["bool", "int", "float", "text", "text", "int", "mixed", "bigint"]) for _ in range(ncols)]
    header = rng.chance(50)
    if size == "tiny":
        nrows = rng.below(4)
    elif size == "small":
        nrows = rng.below(12)
    else:
        nrows = 250 + rng.below(300)
    crlf_file = rng.choice([0, 1, 2])  # LF, CRLF, mixed
    recs = []
    if header:
        recs.append([(("c%d" % i).encode() if rng.chance(85) else rand_field(rng, "text", delim, quote)[0], False) for i in range(ncols)])
    late_text_row = nrows - 3 if (size == "big" and rng.chance(25)) else -1
    for r in range(nrows):
        row = []
        for k in kinds:
            kk = rng.choice(["bool", "int", "float", "text"]) if k == "mixed" else k
            if r == late_text_row and k in ("int", "float", "bool") and rng.chance(50):
                kk = "text"
            row.append(rand_field(rng, kk, delim, quote))
        recs.append(row)
    out = b""
    d, q = bytes([delim]), bytes([quote])
    nblank = 0
    for i, row in enumerate(recs):
        enc = []
        for content, must in row:
            quoted = must or any(c in content for c in (d, q, b"\r", b"\n")) or rng.chance(15)
            enc.append(q + content.replace(q, q + q) + q if quoted else content)
        line = d.join(enc)
        if line == b"":
            # one bare empty field = a blank line; write it quoted unless we want the blank-line case
            if rng.chance(50):
                line = q + q
            else:
                nblank += 1
        term = b"\r\n" if (crlf_file == 1 or (crlf_file == 2 and rng.chance(50))) else b"\n"
        last = i == len(recs) - 1
        if last and rng.chance(15):
            term = b""
        out += line + term
    if rng.chance(4):
        out = BOM + out
    return {"bytes": out, "delim": delim, "quote": quote, "header": header, "ncols": ncols, "kinds": kinds,
            "nrecs": len(recs), "blank": nblank}


def gen_soup(rng, n, delim, quote):
    """arbitrary bytes over the interesting alphabet (not necessarily RFC-4180)"""
    alpha = [delim, delim, quote, quote, 10, 10, 13, 97, 49, 0xc3, 0xa9, 32]
    return bytes(rng.choice(alpha) for _ in range(n))


# ------------------------------------------------------------------ helpers
def hx(b):
    return b.hex() if b else "-"


def parse_recs(s):
    """'[61,62][,63]' -> [[b'a',b'b'],[b'',b'c']]"""
    if s in ("PANIC", "ERR") or s.startswith("PANIC"):
        return s
    if s == "EMPTY" or s == "":
        return []
    out = []
    for m in re.finditer(r"\[([^\]]*)\]", s):
        out.append([bytes.fromhex(f) if f != "N" else None for f in m.group(1).split(",")])
    return out


RE_INT = re.compile(rb"^[+-]?[0-9]+$")
RE_FLOAT = re.compile(rb"^[+-]?(?:(?:[0-9]+\.?[0-9]*|\.[0-9]+)(?:[eE][+-]?[0-9]+)?|inf|infinity|nan)$", re.I)
BOOLS = {b"t": 1, b"true": 1, b"TRUE": 1, b"T": 1, b"f": 0, b"false": 0, b"FALSE": 0, b"F": 0}


def typed_cell(ty, f):
    """spec-side conversion of a field text to the harness cell notation; None = does not parse"""
    if f is None or f == b"":
        return "N"
    if ty == "Utf8":
        try:
            return "S" + f.decode("utf-8")
        except UnicodeDecodeError:
            return None
    if ty == "Boolean":
        return "B%d" % BOOLS[f] if f in BOOLS else None
    if ty == "Int64":
        if not RE_INT.match(f):
            return None
        v = int(f)
        return "I%d" % v if -(1 << 63) <= v < (1 << 63) else None
    if ty == "Float64":
        if not RE_FLOAT.match(f):
            return None
        return "F%x" % struct.unpack(">Q", struct.pack(">d", float(f.decode())))[0]
    return None


def typed_rows(types, recs):
    out = []
    for r in recs:
        if len(r) != len(types):
            return "ERR"
        row = [typed_cell(t, f) for t, f in zip(types, r)]
        if any(c is None for c in row):
            return "ERR"
        out.append(row)
    return out


def strip_bom(b):
    return b[3:] if b.startswith(BOM) else b


def classify_rows(got, exp):
    """-> None if equal, else 'other' (no known class of row differences is left)"""
    return None if got == exp else "other"


def classify_typed(got, recs_body, types, terminated):
    return classify_rows(got, typed_rows(types, recs_body))


def classify_vs_spec(data, impl, spec):
    return classify_rows(impl, spec)


# ------------------------------------------------------------------ K1: decoder under every chunking
def stage_decode(ctx, rng, gv, gm):
    quick = ctx["tier"] == "quick"
    cases = []
    n_small = 260 if quick else 1500
    for i in range(n_small):
        if i % 3 == 2:
            delim, quote = rng.choice(DIALECTS)
            data = gen_soup(rng, 4 + rng.below(24), delim, quote)
            wf = False
        else:
            f = None
            for _ in range(50):
                f = gen_file(rng, "tiny")
                if 0 < len(f["bytes"]) <= 40:
                    break
            data, delim, quote, wf = f["bytes"][:40], f["delim"], f["quote"], len(f["bytes"]) <= 40
        # final_empty = True is what the reader does (decode(&[]) at Poll::Ready(0)); False = the decoder alone
        for flush in (False, True):
            cases.append({"id": "d%d-%d" % (i, flush), "delim": delim, "quote": quote, "hex": data.hex(), "mode": "all2",
                          "flush": flush, "cap": rng.choice([0, 0, 1, 16]), "final_empty": True, "wf": wf})
        if i % 4 == 0:
            cases.append({"id": "d%d-n" % i, "delim": delim, "quote": quote, "hex": data.hex(), "mode": "all2",
                          "flush": bool(i % 8), "cap": 0, "final_empty": False, "wf": wf})
    # hand-picked: the witnesses of the theorems / findings
    for j, (txt, dl, q) in enumerate([(b"a,b\n1,2", 44, 34), (b"a,b\n,c\n", 44, 34), (b"a\n\nb\n", 44, 34),
                                       (b'a,"b""c"\r\n"x\r\ny",z\r\n', 44, 34), (BOM + b"a,b\n1,2\n", 44, 34),
                                       (b"a|'b''c'\n'',|\n", 124, 39), (b'a,b\n"",""\n"",c\n', 44, 34),
                                       (BOM + b"a\n", 44, 34), (BOM, 44, 34), (BOM[:2], 44, 34), (BOM[:2] + b"a\n1\n", 44, 34),
                                       (b'"' + BOM + b'",' + BOM + b"\n", 44, 34)]):
        for flush in (False, True):
            cases.append({"id": "w%d-%d" % (j, flush), "delim": dl, "quote": q, "hex": txt.hex(), "mode": "all2",
                          "flush": flush, "cap": 0, "final_empty": True, "wf": True})
    # larger files, random chunkings
    n_big = 6 if quick else 60
    for i in range(n_big):
        f = gen_file(rng, "small" if i % 2 else "big")
        data = f["bytes"][:6000]
        n = len(data)
        if n < 3:
            continue
        cuts = [[]]
        for _ in range(6 if quick else 20):
            k = rng.choice([1, 2, 5, 20, 100])
            cuts.append(sorted(set(1 + rng.below(n - 1) for _ in range(k))))
        cuts.append(list(range(1, n)) if n < 1500 else list(range(7, n, 7)))   # one-byte / 7-byte reads
        for flush in (False, True):
            cases.append({"id": "b%d-%d" % (i, flush), "delim": f["delim"], "quote": f["quote"], "hex": data.hex(),
                          "mode": "cuts", "cuts": cuts, "flush": flush, "cap": rng.choice([0, 64]), "final_empty": True,
                          "wf": len(f["bytes"]) <= 6000})
    real = common.run_harness(gv, "decode", [{k: v for k, v in c.items() if k != "wf"} for c in cases], timeout=900)
    lines = []
    for c in cases:
        l = "%d %d %s %s %d %d" % (c["delim"], c["quote"], c["hex"] or "-", c["mode"], c["flush"], c["final_empty"])
        if c["mode"] == "cuts":
            l += " " + ";".join(",".join(str(x) for x in cs) if cs else "-" for cs in c["cuts"])
        lines.append(l)
    mout = common.run_model(gm, "decode", lines, timeout=900)
    spec = common.run_model(gm, "spec", ["%d %d %s" % (c["delim"], c["quote"], hx(strip_bom(bytes.fromhex(c["hex"])))) for c in cases])
    corr_mism, viol, known = [], [], {}
    nchunkings, distinct = 0, set()
    fix_ok = fix_total = 0
    for i, (c, r) in enumerate(zip(cases, real)):
        data = bytes.fromhex(c["hex"])
        m_results = mout[2 * i].split("|") if mout[2 * i] != "" else [""]
        m_which = [int(x) for x in mout[2 * i + 1].split(",")]
        if "results" not in r:
            viol.append({"kind": "decoder-harness-died", "case": c, "result": r})
            continue
        nchunkings += len(r["which"])
        distinct.add((c["hex"], c["flush"], c["final_empty"]))
        if r["results"] != m_results or r["which"] != m_which:
            corr_mism.append({"case": c, "real": r["results"][:3], "model": m_results[:3]})
            continue
        if any(x.startswith("PANIC") for x in r["results"]):
            viol.append({"kind": "decoder-panic", "case": c, "results": r["results"]})
            continue
        # property: independent of the chunking
        if len(r["results"]) > 1:
            n = len(data)
            if c["mode"] == "all2":
                chunkings = [[]] + [[a] for a in range(1, n)] + [[a, b] for a in range(1, n) for b in range(a + 1, n)]
            else:
                chunkings = c["cuts"]
            for cuts, w in zip(chunkings, r["which"]):
                if w == r["which"][0] and w == 0:
                    continue
                if w == 0:
                    continue
                viol.append({"kind": "records-depend-on-chunking", "delim": c["delim"], "quote": c["quote"], "hex": c["hex"],
                             "flush_clear_completed_after_each_read": c["flush"], "end_of_input_signal": c["final_empty"],
                             "cuts": cuts, "got": r["results"][w], "unchunked": r["results"][0],
                             "replay_cmd": "echo '<case json: id,delim,quote,hex,mode=cuts,cuts=[cuts],flush,final_empty,cap=0>' | .work/target/debug/gv_csv decode"})
                break
        # property: the records are the RFC-4180 records (well-formed inputs only)
        if c["wf"] and c["final_empty"]:
            impl = parse_recs(r["results"][0])
            sp = parse_recs(spec[i])
            cls = classify_vs_spec(data, impl, sp)
            fix_total += 1
            fix_ok += cls is None
            if cls is None:
                pass
            elif cls == "other":
                viol.append({"kind": "records-differ-from-rfc4180", "delim": c["delim"], "quote": c["quote"], "hex": c["hex"],
                             "got": r["results"][0], "spec": spec[i]})
            else:
                for k in cls.split("+"):
                    known.setdefault(k, {"hex": c["hex"], "delim": c["delim"], "quote": c["quote"], "got": r["results"][0], "spec": spec[i]})
    return {"cases": len(cases), "chunkings": nchunkings, "distinct": len(distinct), "corr_mismatch": corr_mism,
            "violations": viol, "known": known, "reader_mode_equal_spec": [fix_ok, fix_total],
            "sample": {"hex": cases[0]["hex"], "results": real[0].get("results")}}


def narrowest(vals):
    for ty in ("Boolean", "Int64", "Float64"):
        if all(typed_cell(ty, v) is not None for v in vals):
            return ty
    return "Utf8"


def stage_types(files, ireal, gm):
    """property: each column is typed by the narrowest of Boolean < Int64 < Float64 < Utf8 that accepts every sampled
    non-empty value (rows after the first).  Files shorter than the sample buffer (the sample is the file)."""
    sel, lines = [], []
    for f, r in zip(files, ireal):
        data = f["bytes"]
        if len(data) >= INIT or "schema" not in r or "err" in r["schema"]:
            continue
        d = r["dialect"] or [44, 34]
        if (d[0], d[1]) != (f["delim"], f["quote"]):
            continue   # not an RFC-4180 file under the inferred dialect: outside this stream
        sel.append((f, r))
        lines.append("%d %d %s" % (d[0], d[1], hx(strip_bom(data))))
    spec = common.run_model(gm, "spec", lines, timeout=600)
    viol, known, n = [], {}, 0
    for (f, r), sp in zip(sel, spec):
        recs = parse_recs(sp)
        types = [t for _, t in r["schema"]["cols"]]
        if not recs or any(len(x) != len(types) for x in recs):
            continue
        for j, t in enumerate(types):
            n += 1
            vals = [x[j] for x in recs[1:] if x[j] != b""]
            want = narrowest(vals)
            if t != want:
                w = {"file_hex": f["bytes"].hex()[:600], "column": j, "inferred": t, "narrowest_fitting": want,
                     "values": [v.decode("utf-8", "replace") for v in vals[:8]]}
                viol.append(dict(w, kind="inferred-type-not-narrowest"))
    return {"columns": n, "violations": viol, "known": known}



# ------------------------------------------------------------------ K2/K3: inference and the real CsvReader with small read buffers
def stage_reader(ctx, rng, gv, gm):
    quick = ctx["tier"] == "quick"
    files = [gen_file(rng, "small") for _ in range(220 if quick else 800)] + [gen_file(rng, "big") for _ in range(8 if quick else 40)]
    files += [dict(gen_file(rng, "tiny"), bytes=b, delim=44, quote=34, header=h) for b, h in
              ((b",2\n3,4\n5,6\n", False), (b"a,b\n1,2", True), (b"x\n1\n\n3\n", True), (b"a,b\n,\n,c\n1,d\n", True), (b"", False),
               (b"a,b\nt,1\n1,t\n", True), (b"t,1\n1,t\n0,f\n", False))]
    files += [dict(gen_file(rng, "tiny"), bytes=b"a|b\n1|2", delim=124, quote=34, header=True)]
    files += [dict(gen_file(rng, "tiny"), bytes=BOM + b"a,b\n1,2\n3,4\n", delim=44, quote=34, header=True),
              dict(gen_file(rng, "tiny"), bytes=BOM + b"7\n1\n", delim=44, quote=34, header=False)]
    icases = [{"id": "i%d" % i, "hex": f["bytes"].hex(), "init": INIT, "max": MAXBUF} for i, f in enumerate(files)]
    ireal = common.run_harness(gv, "infer", icases, timeout=600)
    # model: bind + scan as written (read_buf larger than the file, batch 2048)
    mscan = common.run_model(gm, "scan", ["2048 100000000 %d %d %s" % (INIT, MAXBUF, hx(f["bytes"])) for f in files], timeout=900)
    corr, viol, known = [], [], {}
    # the growing sample of bind with a small first read / limit (16 / 128 bytes), so that small files take every path:
    # enough at once, grown until two records, grown to the end of the file, stopped at the limit
    small = [f for f in files if len(f["bytes"]) < 600][:150]
    sreal = common.run_harness(gv, "infer", [{"id": "s%d" % i, "hex": f["bytes"].hex(), "init": 16, "max": 128} for i, f in enumerate(small)], timeout=600)
    smodel = common.run_model(gm, "scan", ["2048 100000000 16 128 %s" % hx(f["bytes"]) for f in small], timeout=900)
    for f, r, m in zip(small, sreal, smodel):
        mp = m.split(" ")
        if "panic" in r:
            viol.append({"kind": "inference-panic", "hex": f["bytes"].hex(), "init": 16, "max": 128, "result": r})
        elif mp[0] != "OK" or "err" in r.get("schema", {"err": 1}):
            if not (mp[0] == "BINDERR" and "err" in r.get("schema", {})):
                corr.append({"what": "infer(16,128)", "hex": f["bytes"].hex(), "real": r, "model": m[:200]})
        else:
            sch = r["schema"]
            got = ("none" if r["dialect"] is None else "%d,%d" % tuple(r["dialect"]), int(sch["has_header"]), ",".join(t for _, t in sch["cols"]),
                   ",".join(("x" + n) for n, _ in sch["cols"]) if sch["has_header"] else None)
            if got != (mp[1], int(mp[2]), mp[3], mp[4] if mp[2] == "1" else None):
                corr.append({"what": "infer(16,128)", "hex": f["bytes"].hex(), "real": r, "model": " ".join(mp[:5])})
    ty = stage_types(files, ireal, gm)
    viol += ty["violations"]
    known.update(ty["known"])
    rcases, rmeta = [], []
    ncmp = ty["columns"]
    for i, (f, r, m) in enumerate(zip(files, ireal, mscan)):
        ncmp += 1
        mp = m.split(" ")
        if "panic" in r:
            viol.append({"kind": "inference-panic", "hex": f["bytes"].hex(), "result": r})
            continue
        if mp[0] != "OK":
            if not (mp[0] == "BINDERR" and "err" in r.get("schema", {})):
                corr.append({"what": "infer", "hex": f["bytes"].hex(), "real": r, "model": m[:200]})
            continue
        real_d = "none" if r["dialect"] is None else "%d,%d" % tuple(r["dialect"])
        sch = r["schema"]
        if "err" in sch:
            corr.append({"what": "infer", "hex": f["bytes"].hex(), "real": r, "model": m[:200]})
            continue
        real_types = ",".join(t for _, t in sch["cols"])
        real_names = ",".join(("x" + n) for n, _ in sch["cols"]) if sch["has_header"] else None
        m_names = mp[4] if mp[2] == "1" else None
        if (real_d, int(sch["has_header"]), real_types, real_names) != (mp[1], int(mp[2]), mp[3], m_names):
            corr.append({"what": "infer", "hex": f["bytes"].hex(), "real": r, "model": " ".join(mp[:5])})
            continue
        # the real reader with small read buffers / batch capacities, same dialect + schema
        d = r["dialect"] or [44, 34]
        types = [t for _, t in sch["cols"]]
        if not types:
            continue
        rbs = [rng.choice([1, 2, 3, 5, 7, 16, 64, 4096]) for _ in range(3 if len(f["bytes"]) < 3000 else 1)]
        if f["bytes"].startswith(BOM[:1]):
            rbs += [1, 2]     # a read ending inside the BOM (repaired finding bom-split-across-first-read)
        for rb in rbs:
            bt = rng.choice([1, 3, 2048])
            rcases.append({"id": "r%d" % len(rcases), "hex": f["bytes"].hex(), "delim": d[0], "quote": d[1],
                           "has_header": sch["has_header"], "types": types, "read_buf": rb, "batch": bt, "cap": 0})
            rmeta.append(f)
    rreal = common.run_harness(gv, "reader", rcases, timeout=900)
    rmodel = common.run_model(gm, "reader", ["%d %d %d %s %d %d %s" % (c["delim"], c["quote"], c["has_header"], ",".join(c["types"]),
                                                                        c["batch"], c["read_buf"], hx(bytes.fromhex(c["hex"]))) for c in rcases], timeout=900)
    rspec = common.run_model(gm, "spec", ["%d %d %s" % (c["delim"], c["quote"], hx(strip_bom(bytes.fromhex(c["hex"])))) for c in rcases], timeout=900)
    distinct = set()
    nskip = 0
    for c, f, r, m, sp in zip(rcases, rmeta, rreal, rmodel, rspec):
        ncmp += 1
        data = bytes.fromhex(c["hex"])
        distinct.add((c["hex"], c["read_buf"], c["batch"]))
        if "panic" in r or "rows" not in r:
            viol.append({"kind": "reader-panic", "case": c, "result": {k: v for k, v in r.items() if k != "rows"}})
            continue
        got = "ERR" if "err" in r else r["rows"]
        mrec = parse_recs(m)
        mrows = "ERR" if mrec == "ERR" else (mrec if isinstance(mrec, str) else typed_rows(c["types"], [[x or b"" for x in row] for row in mrec]))
        if got != mrows:
            # correspondence broken; the rows are still compared with the spec below (property-level observable)
            corr.append({"what": "reader", "case": c, "real": (r.get("err") or r["rows"][:3]), "model": m[:200]})
        if (c["delim"], c["quote"]) != (f["delim"], f["quote"]):
            nskip += 1
            continue   # not an RFC-4180 file under the inferred dialect: only the model correspondence applies
        srec = parse_recs(sp)
        exp = typed_rows(c["types"], srec[1:] if c["has_header"] else srec)
        if got == exp:
            continue
        # classification of impl != spec (impl == faithful model here)
        terminated = data.endswith(b"\n") or data.endswith(b"\r")
        cls = classify_typed(got, srec[1:] if c["has_header"] else srec, c["types"], terminated)
        if cls == "other":
            cls = None
        if cls is None:
            viol.append({"kind": "rows-differ-from-rfc4180", "case": c, "got": r.get("err") or r["rows"][:5], "spec_rows": exp if exp == "ERR" else exp[:5]})
        else:
            for k in cls.split("+"):
                known.setdefault(k, {"hex": c["hex"] if len(c["hex"]) < 400 else c["hex"][:400] + "...", "read_buf": c["read_buf"], "batch": c["batch"],
                                     "got": r.get("err") or r["rows"][-2:]})
    return {"compared": ncmp, "distinct": len(distinct), "corr_mismatch": corr, "violations": viol, "known": known,
            "reader_cases": len(rcases), "infer_cases": len(icases), "not_rfc_under_inferred_dialect": nskip,
            "sample": {"infer": ireal[0], "reader": {"read_buf": rcases[0]["read_buf"], "batch": rcases[0]["batch"],
                                                     "rows": rreal[0].get("rows", [])[:2]} if rcases else None}}


READ_BUF = 4 * 1024 * 1024


def big_cases():
    """two files larger than the 4 MiB read buffer; the rows are known by construction.
    A: the cut falls inside a quoted field holding CRLF (and every row has such a field): must read back exactly.
    B: the cut falls right after the leading delimiter of a record whose first field is empty, after earlier records
       completed in the same read (the clear_completed defect repaired by /repo 0abcb062b was reachable here)."""
    os.makedirs(CSVDIR, exist_ok=True)
    out = []
    # A: header 7 bytes, rows of 64 bytes: <7 digits>,"<50 bytes incl CRLF>",x\n ; cut 4194304 lands inside the quotes
    pa = os.path.join(CSVDIR, "bigA.csv")
    nrows = 70000
    if not os.path.exists(pa) or os.path.getsize(pa) != 7 + 64 * nrows:
        with open(pa, "wb") as g:
            g.write(b"a,b,c\r\n")
            for i in range(nrows):
                g.write(b"%07d,\"" % i + b"p" * 24 + b"\r\n" + b"q" * 24 + b"\",x\n")
    out.append({"id": "bigA", "path": pa, "kind": "A", "nrows": nrows, "sum": nrows * (nrows - 1) // 2})
    # B: header of 63 bytes, rows of 64 bytes starting with an empty field: ,<7 digits>,<54 x>\n
    pb = os.path.join(CSVDIR, "bigB.csv")
    if not os.path.exists(pb) or os.path.getsize(pb) != 63 + 64 * nrows:
        with open(pb, "wb") as g:
            g.write(b"a," + b"b" * 58 + b",c\n")
            for i in range(nrows):
                g.write(b",%07d," % i + b"x" * 54 + b"\n")
    out.append({"id": "bigB", "path": pb, "kind": "B", "nrows": nrows, "sum": nrows * (nrows - 1) // 2})
    return out


# ------------------------------------------------------------------ K4: read_csv / DESCRIBE through SQL
def stage_sql(ctx, rng, gsql, gm):
    quick = ctx["tier"] == "quick"
    os.makedirs(CSVDIR, exist_ok=True)
    files = []
    n = 120 if quick else 400
    for i in range(n):
        f = gen_file(rng, "big" if i % 6 == 5 else "small")
        f["path"] = os.path.join(CSVDIR, "f%d.%s" % (i, "tsv" if f["delim"] == 9 else "csv"))
        open(f["path"], "wb").write(f["bytes"])
        files.append(f)
    cases = []
    for i, f in enumerate(files):
        batch = [1, 3, 2048][i % 3] if len(f["bytes"]) < 3000 else [3, 2048][i % 2]
        parts = [1, 4][(i // 3) % 2]
        cases.append({"id": "q%d" % i, "mode": "threaded", "threads": 2, "timeout_s": 120,
                      "stmts": ["set partitions to %d" % parts, "set batch_size to %d" % batch,
                                "select * from read_csv('%s')" % f["path"], "describe read_csv('%s')" % f["path"],
                                "select count(*) from '%s'" % f["path"]],
                      "meta": {"batch": batch, "parts": parts}})
    # multi-file: a file without final terminator followed by another one in the same partition
    mf = []
    for j, (a, b) in enumerate([(b"1,2\n3,4\n5,6", b"7,8\n9,10\n"), (b"a,b\n1,2\n3,4", b"a,b\n7,8\n9,10\n"), (b"1,2\n3,4\n", b"7,8\n9,10\n"),
                                (b"1,2\n3,4\n", BOM + b"7,8\n9,10\n"), (BOM + b"1,2\n3,4\n", b"7,8\n9,10\n"),
                                (b"1,2\n3,4", BOM + b"7,8\n9,10"), (BOM + b"a,b\n1,2\n3,4", BOM + b"a,b\n7,8\n9,10\n")]):
        pa, pb = os.path.join(CSVDIR, "m%da.csv" % j), os.path.join(CSVDIR, "m%db.csv" % j)
        open(pa, "wb").write(a)
        open(pb, "wb").write(b)
        mf.append({"id": "m%d" % j, "mode": "threaded", "threads": 2, "timeout_s": 60,
                   "stmts": ["set partitions to 1", "select * from read_csv(['%s','%s'])" % (pa, pb)], "a": a.hex(), "b": b.hex()})
    bigs = big_cases()
    bigq = [{"id": b["id"], "mode": "threaded", "threads": 2, "timeout_s": 120,
             "stmts": ["set partitions to 1", "select count(*), sum(%s), count(c) from read_csv('%s')" % ("a" if b["kind"] == "A" else b["path"] and "b" * 58, b["path"]),
                       "select b from read_csv('%s') where a = 65535 or a = 65536" % b["path"] if b["kind"] == "A" else "select 1"]} for b in bigs]
    real = common.run_harness(gsql, "sql", [{k: v for k, v in c.items() if k not in ("meta", "a", "b")} for c in cases + mf + bigq], timeout=1500)
    mscan = common.run_model(gm, "scan", ["%d 4194304 %d %d %s" % (c["meta"]["batch"], INIT, MAXBUF, hx(f["bytes"])) for c, f in zip(cases, files)], timeout=900)
    viol, known, corr = [], {}, []
    nq, distinct = 0, set()
    spec_lines, spec_idx = [], []
    parsed = []
    for c, f, r, m in zip(cases, files, real, mscan):
        nq += 1
        replay = {"file_hex": f["bytes"].hex() if len(f["bytes"]) < 1500 else f["bytes"][:1500].hex() + "...(%d bytes, seed-generated)" % len(f["bytes"]),
                  "path": f["path"], "stmts": c["stmts"]}
        res = r.get("results")
        if not res or len(res) < 3 or "panic" in res[-1] or any("panic" in x or "hang" in x for x in res):
            viol.append(dict(replay, kind="engine-died-or-panicked", result=str(r)[:400]))
            parsed.append(None)
            continue
        sel, desc = res[2], res[3] if len(res) > 3 else {}
        mp = m.split(" ")
        distinct.add((f["delim"], f["quote"], f["header"], c["meta"]["batch"], c["meta"]["parts"], len(f["bytes"]) > INIT))
        if mp[0] != "OK":
            if sel.get("ok"):
                corr.append(dict(replay, what="model says %s" % mp[0], real=str(sel)[:200]))
            parsed.append(None)
            continue
        if not sel.get("ok") and sel.get("phase") == "plan":
            corr.append(dict(replay, what="bind failed", real=sel, model=" ".join(mp[:4])))
            parsed.append(None)
            continue
        types = mp[3].split(",")
        hdr = mp[2] == "1"
        names = [bytes.fromhex(x[1:]).decode("utf-8", "replace") for x in mp[4].split(",")] if hdr else ["column%d" % k for k in range(len(types))]
        got = sel["rows"] if sel.get("ok") else "ERR"
        if sel.get("ok"):
            sch = [[a, b] for a, b in sel["schema"]]
            if sch != [[a, b] for a, b in zip(names, types)]:
                corr.append(dict(replay, what="schema", real=sch, model=[names, types]))
                parsed.append(None)
                continue
            if desc.get("ok") and desc["rows"] != [["S" + a, "S" + b] for a, b in zip(names, types)]:
                viol.append(dict(replay, kind="describe-differs-from-scan-schema", describe=desc["rows"], scan=sch))
            cnt = res[4] if len(res) > 4 else {}
            if cnt.get("ok") and cnt["rows"] != [["I%d" % len(got)]]:
                viol.append(dict(replay, kind="count-differs-from-rows", count=cnt["rows"], rows=len(got)))
        mrec = parse_recs(mp[5])
        mrows = mrec if isinstance(mrec, str) else typed_rows(types, [[x or b"" for x in row] for row in mrec])
        if got != mrows:
            # correspondence broken; the rows are still compared with the spec below (property-level observable)
            corr.append(dict(replay, what="rows", real=(sel.get("err") or got[:3]), model=mp[5][:200]))
        d = mp[1]
        dd = [44, 34] if d == "none" else [int(x) for x in d.split(",")]
        spec_lines.append("%d %d %s" % (dd[0], dd[1], hx(strip_bom(f["bytes"]))))
        parsed.append((types, hdr, got, dd, replay, sel))
    spec = common.run_model(gm, "spec", spec_lines, timeout=900)
    si = 0
    for f, p in zip(files, parsed):
        if p is None:
            continue
        types, hdr, got, dd, replay, sel = p
        srec = parse_recs(spec[si])
        si += 1
        if (dd[0], dd[1]) != (f["delim"], f["quote"]):
            continue   # not an RFC-4180 file under the inferred dialect
        data = f["bytes"]
        terminated = data.endswith(b"\n") or data.endswith(b"\r")
        body = lambda recs: recs[1:] if hdr else recs
        exp = typed_rows(types, body(srec))
        if got == exp:
            continue
        cls = classify_typed(got, body(srec), types, terminated)
        if cls == "other":
            cls = None
        if cls is None:
            viol.append(dict(replay, kind="rows-differ-from-rfc4180", inferred_dialect=dd, header=hdr, types=types,
                             got=(sel.get("err") or got[:5]), spec_rows=exp if exp == "ERR" else exp[:5]))
        else:
            for k in cls.split("+"):
                known.setdefault(k, dict(replay, got_last=(got[-1:] if got != "ERR" else "ERR")))
    # header decision (documented rule: "parse the first record into the inferred types; if it differs, assume a
    # header"): a headerless file whose first row parses field by field must not be given a header.  The empty string
    # parses as Utf8 only (an empty header name over a typed column marks a header: slt/csv/infer/empty_header_names.slt)
    for c, f, p in zip(cases, files, parsed):
        if p is None:
            continue
        types, hdr, got, dd, replay, sel = p
        if hdr and not f["header"] and (dd[0], dd[1]) == (f["delim"], f["quote"]):
            srec = parse_recs(spec_lines and common.run_model(gm, "spec", ["%d %d %s" % (dd[0], dd[1], hx(strip_bom(f["bytes"])))])[0])
            if srec and all(((x != b"" or t == "Utf8") and typed_cell(t, x) is not None) for t, x in zip(types, srec[0])) and len(srec[0]) == len(types):
                viol.append(dict(replay, kind="valid-first-row-taken-as-header", first_row=[x.decode("utf-8", "replace") for x in srec[0]], types=types))
    for c, r in zip(mf, real[len(cases):]):
        nq += 1
        a, b = bytes.fromhex(c["a"]), bytes.fromhex(c["b"])
        res = (r.get("results") or [{}])[-1]
        hdr = strip_bom(a).startswith(b"a,b")
        # per-file independence: the rows are those of each file read alone (spec: rfc4180 per file), in queue order
        per_file = [parse_recs(x) for x in common.run_model(gm, "spec", ["44 34 %s" % hx(strip_bom(x)) for x in (a, b)])]
        types = ["Int64", "Int64"]
        want = typed_rows(types, [r for recs in per_file for r in (recs[1:] if hdr else recs)])
        got = res.get("rows") if res.get("ok") else "ERR"
        ok = got == want
        mq = common.run_model(gm, "queue", ["44 34 %d %s 2048 4194304 %s;%s" % (hdr, ",".join(types), hx(a), hx(b))])[0]
        mrec = parse_recs(mq)
        mrows = "ERR" if mrec == "ERR" else (mrec if isinstance(mrec, str) else typed_rows(types, [[x or b"" for x in row] for row in mrec]))
        if got != mrows:
            corr.append({"what": "file queue", "files_hex": [c["a"], c["b"]], "real": str(res)[:300], "model": mq[:200]})
        if not ok:
            viol.append({"kind": "multi-file-rows", "files_hex": [c["a"], c["b"]], "stmts": c["stmts"], "got": str(r)[:300], "want": want})
    for b, q, r in zip(bigs, bigq, real[len(cases) + len(mf):]):
        nq += 1
        res = r.get("results") or []
        agg = res[1] if len(res) > 1 else {}
        want = [["I%d" % b["nrows"], "I%d" % b["sum"], "I%d" % b["nrows"]]]
        if agg.get("ok") and agg.get("rows") == want:
            if b["kind"] == "A":
                field = "S" + "p" * 24 + "\r\n" + "q" * 24
                if not (len(res) > 2 and res[2].get("ok") and res[2]["rows"] == [[field], [field]]):
                    viol.append({"kind": "big-file-quoted-field-across-read-buffer", "path": b["path"], "stmts": q["stmts"], "got": str(res[2:])[:300]})
            continue
        if True:
            viol.append({"kind": "big-file-rows", "path": b["path"], "generator": "vlib/c17.py big_cases() kind " + b["kind"], "stmts": q["stmts"], "got": str(r)[:400], "want": want})
    return {"queries": nq, "distinct": len(distinct), "violations": viol, "known": known, "corr_mismatch": corr,
            "sample": {"path": files[0]["path"], "schema": (real[0].get("results") or [{}, {}, {}])[2].get("schema"),
                       "rows": ((real[0].get("results") or [{}, {}, {}])[2].get("rows") or [])[:2]}}


# ------------------------------------------------------------------ regression: witnesses of the repaired findings
REGRESS = [
    # (id of the repaired finding, file, expected schema, expected rows)
    ("inference-sample-without-end-of-input", b"a,b\n1,2", [["a", "Int64"], ["b", "Int64"]], [["I1", "I2"]]),
    ("inference-sample-without-end-of-input(dialect)", b"a|b\n1|2\n3|4", [["a", "Int64"], ["b", "Int64"]], [["I1", "I2"], ["I3", "I4"]]),
    ("boolean-word-mixed-column(t,1)", b"a\nt\n1\n", [["column0", "Utf8"]], [["Sa"], ["St"], ["S1"]]),
    ("boolean-word-mixed-column(1,t)", b"a\n1\nt\n", [["column0", "Utf8"]], [["Sa"], ["S1"], ["St"]]),
    ("boolean-word-mixed-column(t,2.5)", b"7,x\nt,1\n2.5,2\n", [["7", "Utf8"], ["x", "Int64"]], [["St", "I1"], ["S2.5", "I2"]]),
    ("blank-line (documented: skipped)", b"x\n1\n\n3\n", [["x", "Int64"]], [["I1"], ["I3"]]),
    ("empty header names (documented rule; pinned by slt/csv/infer/empty_header_names.slt)", b",,\n1,mario,4\n2,peach,8\n",
     [["", "Int64"], ["", "Utf8"], ["", "Int64"]], [["I1", "Smario", "I4"], ["I2", "Speach", "I8"]]),
    ("sample-without-data-record (first data record ends beyond the first 4096 bytes)", b"a,s\n1," + b"x" * 4098 + b"\n",
     [["a", "Int64"], ["s", "Utf8"]], [["I1", "S" + "x" * 4098]]),
    ("sample-without-data-record (header longer than the first 4096 bytes)", b"a," + b"h" * 5000 + b"\n1,2.5\n3,4\n",
     [["a", "Int64"], ["h" * 5000, "Float64"]], [["I1", "F4004000000000000"], ["I3", "F4010000000000000"]]),
    ("unterminated-last-record", b"a,b\n1,2\n3,4\n5,6", [["a", "Int64"], ["b", "Int64"]], [["I1", "I2"], ["I3", "I4"], ["I5", "I6"]]),
]


def stage_regress(ctx, gsql):
    """the witnesses of every repaired finding through SQL, with the rows / schema they must give now"""
    os.makedirs(CSVDIR, exist_ok=True)
    cases = []
    for i, (rid, data, schema, rows) in enumerate(REGRESS):
        p = os.path.join(CSVDIR, "regress%d.csv" % i)
        open(p, "wb").write(data)
        cases.append({"id": "g%d" % i, "mode": "threaded", "threads": 2, "timeout_s": 60,
                      "stmts": ["select * from read_csv('%s')" % p, "describe read_csv('%s')" % p]})
    real = common.run_harness(gsql, "sql", cases, timeout=600)
    viol = []
    for (rid, data, schema, rows), c, r in zip(REGRESS, cases, real):
        res = r.get("results") or []
        sel = res[0] if res else {}
        desc = res[1] if len(res) > 1 else {}
        got_schema = [[a, b] for a, b in sel.get("schema", [])] if sel.get("ok") else None
        got_rows = sel.get("rows") if sel.get("ok") else (sel.get("err") or str(r)[:200])
        ok = got_schema == schema and (rows is None or got_rows == rows) and \
            desc.get("ok") and desc.get("rows") == [["S" + a, "S" + b] for a, b in schema]
        if rows is None and ok:
            # no fixed rows: the scan must succeed and hold as many rows as the file has lines after the header
            ok = isinstance(got_rows, list) and len(got_rows) == data.count(b"\n") - 1
        if not ok:
            viol.append({"kind": "regression of repaired finding: " + rid, "file_hex": data.hex(), "stmts": c["stmts"],
                         "want_schema": schema, "want_rows": rows, "got_schema": got_schema, "got": got_rows,
                         "describe": desc.get("rows") if desc.get("ok") else str(desc)[:200]})
    return {"cases": len(cases), "violations": viol}


# ------------------------------------------------------------------ malformed stream (C19's CSV half: error or rows, no panic / hang)
def stage_malformed(ctx, rng, gsql):
    os.makedirs(CSVDIR, exist_ok=True)
    samples = [b"a,b\n\xff\xfe,2\n3,4\n", b'a,b\n"unterminated,2\n3,4\n', b"a,b\n1\n2,3,4\n5,6\n", b"a,b\n1,\x002\n3,4\n",
               b'a,b\n"x"y,2\n3,4\n', b"\r\r\r", b"\xef\xbb", b'"', b",\n", b"a,b\n" + b"1,2\n" * 2000 + b"\xc3", b"a,b\n1,2\n" + b'"' + b"x" * 5000]
    n = 40 if ctx["tier"] == "quick" else 200
    for _ in range(n):
        d, q = rng.choice(DIALECTS)
        samples.append(gen_soup(rng, 5 + rng.below(200), d, q) + bytes(rng.below(256) for _ in range(rng.below(4))))
    cases = []
    for i, s in enumerate(samples):
        p = os.path.join(CSVDIR, "bad%d.csv" % i)
        open(p, "wb").write(s)
        cases.append({"id": "x%d" % i, "mode": "threaded", "threads": 2, "timeout_s": 30,
                      "stmts": ["set batch_size to %d" % rng.choice([1, 3, 2048]), "select * from read_csv('%s')" % p], "hex": s.hex()[:600]})
    real = common.run_harness(gsql, "sql", [{k: v for k, v in c.items() if k != "hex"} for c in cases], timeout=900)
    outcome = {"rows": 0, "error": 0, "panic": 0, "hang": 0}
    bad = []
    for c, r in zip(cases, real):
        res = (r.get("results") or [{}])[-1]
        if "timeout" in r or "hang" in res:
            outcome["hang"] += 1
            bad.append({"kind": "malformed-csv-hang", "hex": c["hex"], "stmts": c["stmts"]})
        elif "abort" in r or "panic" in res or not r.get("results"):
            outcome["panic"] += 1
            bad.append({"kind": "malformed-csv-panic", "hex": c["hex"], "stmts": c["stmts"], "result": str(r)[:300]})
        elif res.get("ok"):
            outcome["rows"] += 1
        else:
            outcome["error"] += 1
    return {"cases": len(cases), "outcomes": outcome, "bad": bad}


# ------------------------------------------------------------------ failing-input search (when a proof / correspondence broke)
def search_failing(ctx, gv, gm):
    """Property-level search on the implementation alone: the real decoder under every two-cut chunking of small
    RFC-4180 files vs the RFC-4180 records; any difference is returned."""
    rng = common.Rng(ctx["seed"] ^ 0x17)
    found = []
    cases = []
    for i in range(300):
        f = gen_file(rng, "tiny")
        if not (0 < len(f["bytes"]) <= 40):
            continue
        for flush in (False, True):
            cases.append({"id": "s%d-%d" % (i, flush), "delim": f["delim"], "quote": f["quote"], "hex": f["bytes"].hex(), "mode": "all2",
                          "flush": flush, "cap": 0, "final_empty": True})
    real = common.run_harness(gv, "decode", cases, timeout=900)
    spec = common.run_model(gm, "spec", ["%d %d %s" % (c["delim"], c["quote"], hx(strip_bom(bytes.fromhex(c["hex"])))) for c in cases])
    for c, r, sp in zip(cases, real, spec):
        data = bytes.fromhex(c["hex"])
        if "results" not in r:
            found.append({"case": c, "result": r})
            continue
        cls = classify_vs_spec(data, parse_recs(r["results"][0]), parse_recs(sp))
        if cls == "other" or len(r["results"]) > 1 or any(x.startswith("PANIC") for x in r["results"]):
            found.append({"delim": c["delim"], "quote": c["quote"], "hex": c["hex"], "got": r["results"], "spec": sp})
        if len(found) >= 3:
            break
    return found


def run(ctx):
    t0 = time.time()
    rng = common.Rng(ctx["seed"])
    out = {"violations": [], "known": [], "assumptions": []}
    gv, _ = common.build_harness(bin="gv_csv")
    gsql, _ = common.build_harness(bin="gverif")
    pr = common.coq_props(PROPS)
    audit = [a for a in common.audit_sources() if "Csv" in a or "C17" in a]
    obligations = pr["declared"]
    bad_assum = common.check_assumptions(pr) if pr["ok"] else []
    proof_broken = (not pr["ok"]) or bool(bad_assum) or bool(audit)
    discharged = 0 if proof_broken else len(obligations)
    gm = common.build_ocaml("csv")
    tt = [time.time()]
    k1 = stage_decode(ctx, rng, gv, gm); tt.append(time.time())
    k2 = stage_reader(ctx, rng, gv, gm); tt.append(time.time())
    k3 = stage_sql(ctx, rng, gsql, gm); tt.append(time.time())
    k4 = stage_malformed(ctx, rng, gsql); tt.append(time.time())
    k5 = stage_regress(ctx, gsql); tt.append(time.time())
    for st in (k1, k2, k3, k5):
        for v in st["violations"]:
            out["violations"].append({"what": v["kind"], "replay": v, "no_input": False})
    for b in k4["bad"]:
        # C19's half: recorded, reported under the narrow class "malformed input" only if the process panics or hangs
        out["violations"].append({"what": b["kind"], "replay": b, "no_input": False})
    # known findings that reproduced
    listed = {k["id"]: k for k in common.known_findings()["known"] if k["property"] == PID}
    seen = {}
    for st in (k1, k2, k3):
        for k, w in st["known"].items():
            seen.setdefault(k, w)
    for k, w in seen.items():
        if k in listed:
            out["known"].append("%s: %s [reproduced: %s]" % (k, listed[k]["what"], json.dumps(w, default=str)[:240]))
        else:
            out["violations"].append({"what": "finding class not listed in findings/C17.json: " + k, "replay": w, "no_input": False})
    corr = k1["corr_mismatch"] + k2["corr_mismatch"] + k3["corr_mismatch"]
    if proof_broken or corr:
        found = search_failing(ctx, gv, gm)
        reason = {"proof_failed_at": pr.get("failed_at"), "log_tail": pr["log"][-1500:] if not pr["ok"] else "",
                  "assumption_problems": bad_assum, "audit": audit, "correspondence_mismatches": corr[:5]}
        if found:
            for w in found:
                out["violations"].append({"what": "CSV records differ from RFC-4180", "replay": dict(w, broken=reason), "no_input": False})
        else:
            what = "theorem(s) in %s no longer check" % PROPS if proof_broken else \
                "correspondence (real CsvDecoder/ByteRecords/CsvReader/inference vs model/Csv.v, CsvInfer.v) no longer holds"
            out["violations"].append({"what": what, "replay": reason, "no_input": True})
    out["coverage"] = {
        "obligations": len(obligations), "discharged": discharged,
        "checker_cmd": "cd coq && make props/C17.vo (Print Assumptions parsed; Admitted/Axiom audit over coq/)",
        "trusted_base": ["Coq 8.16.1 kernel (vm_compute in the closed witness lemmas)",
                         "model of the external crate csv_core 0.1.12 (transition_nfa transcribed; validated only by the correspondence)",
                         "extraction (ExtrOcamlBasic only) + ocaml/csv.ml parsing/printing",
                         "harness/src/bin/gv_csv.rs, harness/src/sql.rs; hook glaredb_ext_csv::verif (re-export of the private decoder module)",
                         "python float()/int() as the oracle for numeric VALUES of fields (the model decides validity, not the value)",
                         "not modelled: output-capacity round trips (OutputFull/OutputEndsFull) of CsvDecoder::decode, UTF-8 validation, the dealing of files to partitions (C11); the file queue of ONE partition is modelled (read_queue)"],
        "theorems": obligations,
        "evaluations": k1["chunkings"] + k2["compared"] + k3["queries"] + k4["cases"] + k5["cases"],
        "distinct_nontrivial": k1["distinct"] + k2["distinct"] + k3["distinct"],
        "rule": "K1: real CsvDecoder+ByteRecords vs extracted model on every 0/1/2-cut chunking of files <= 40 bytes (RFC-4180 encodings and byte soup over the special bytes), flush / no flush / with end-of-input signal, plus random and 1-byte chunkings of files up to 6000 bytes; chunking-independence and equality with rfc4180 checked per file. K2: infer_from_sample + infer_from_records vs CsvInfer model; real CsvReader over a memory file with read buffers {1,2,3,5,7,16,64,4096} x batch {1,3,2048} vs model and vs spec rows. K3: read_csv / DESCRIBE / count(*) through SQL over generated files (4 delimiters x 2 quotes x header x contents x LF/CRLF/mixed x below/above 4096 bytes x batch {1,3,2048} x partitions {1,4}) vs model and vs rfc4180 under the inferred dialect. distinct = distinct (file, mode) / (file, read_buf, batch) / (dialect, header, batch, partitions, size class).",
        "samples": [k1["sample"], k2["sample"], k3["sample"]],
        "decoder_cases": k1["cases"], "decoder_chunkings": k1["chunkings"], "decoder_reader_mode_equals_spec": k1["reader_mode_equal_spec"],
        "infer_cases": k2["infer_cases"], "reader_cases": k2["reader_cases"], "sql_queries": k3["queries"],
        "malformed": k4["outcomes"], "regression_witnesses": k5["cases"], "exhaustive": False,
        "stage_seconds": [round(b - a, 1) for a, b in zip([t0] + tt, tt)],
    }
    out["assumptions"] = ["files are valid UTF-8 in the well-formed stream; field VALUES of numeric columns are compared with python's correctly rounded float()/int()",
                          "local files: a read returns min(buffer, remaining) bytes, so through SQL the only cuts are at multiples of 4 MiB; smaller read buffers are exercised on the real CsvReader over a memory file"]
    out["wall"] = time.time() - t0
    return out
