"""C03 — Results are independent of partitions, batch size and join algorithm."""
from . import sqlprop, sqlgen

PID = "C03"


def make_work(rng, tier):
    n = 40 if tier == "quick" else 240
    work = []
    for i in range(n):
        # row counts at / around batch sizes so that exact multiples and off-by-one occur
        tables = sqlgen.make_db(rng, max_rows=rng.choice([7, 8, 16, 21, 64, 65]), edge_text=(i % 2 == 0))
        g = sqlgen.Gen(rng, tables, {"max_depth": 2, "ctes": False, "join_bias": i % 3 == 0, "order_chance": 60})
        qs = [g.query() for _ in range(2)]
        runs = []
        for q in qs:
            cfgs = [{"partitions": 1, "batch_size": 2048, "enable_hash_joins": True}]
            for _ in range(4):
                cfgs.append({"partitions": rng.choice([1, 2, 3, 5, 8, 16, 64] if tier == "quick" else [1, 2, 3, 5, 16, 64, 64, 512]),
                             "batch_size": rng.choice([1, 2, 3, 7, 8, 64, 2048, 8192]),
                             "enable_hash_joins": bool(rng.below(2))})
            for c in cfgs:
                runs.append((q, c))
        threaded = rng.chance(35)
        work.append({"id": "c03-%d" % i, "tables": tables, "runs": runs, "mode": "threaded" if threaded else "det",
                     "threads": rng.choice([1, 2, 16]), "det_partitions": rng.choice([1, 3]),
                     "sched": {"kind": rng.choice(["fifo", "lifo", "random"]), "seed": rng.below(1 << 30)}})
    # directed family A: multi-key ORDER BY (integer key before a text key, every direction combination) over
    # strings that share their first 12+ bytes, the table filled by several INSERTs (several storage segments,
    # hence several sorted runs with more than one partition); same query under partitions 1..8
    from . import gen
    nA = 3 if tier == "quick" else 12
    for i in range(nA):
        cols = [("c0", "i32"), ("c1", "text")]
        rows = [[rng.choice(["I1", "I1", "I2", "N"]), "S" + rng.choice(["shared_prefix_%02d" % k for k in range(1, 9)] + ["shared_prefix_", "twelve_chars"])]
                for _ in range(rng.choice([12, 24, 40]))]
        tables = [("t0", cols, rows, "virtual")]
        k = max(1, len(rows) // rng.choice([2, 3, 4]))
        prelude = [gen.create_table("t0", cols)] + gen.insert_rows("t0", cols, rows, chunk=k)
        runs = []
        for d0 in (0, 1):
            for d1 in (0, 1):
                lim = rng.choice([None, None, 3, 7])
                sql = "SELECT x1.c0 AS r0, x1.c1 AS r1 FROM t0 AS x1 ORDER BY r0%s NULLS LAST, r1%s NULLS LAST%s" % (
                    " DESC" if d0 else "", " DESC" if d1 else "", "" if lim is None else " LIMIT %d" % lim)
                sx = "(order (select (fq (table 0)) - - - ((col 0 0) (col 0 1)) 0) ((0 %d 0) (1 %d 0)) %s 0)" % (d0, d1, "-" if lim is None else str(lim))
                q = sqlgen.Q(sql, sx, ["i32", "text"], ["r0", "r1"], {"order", "sort_runs"}, ordered=True)
                for parts in (1, 2, 4, 8):
                    runs.append((q, {"partitions": parts, "batch_size": rng.choice([4, 64, 2048])}))
        work.append({"id": "c03-sort-%d" % i, "tables": tables, "prelude": prelude, "runs": runs, "mode": "threaded", "threads": 4})
    # directed family B: outer joins evaluated by the nested-loop operator with tiny batches - a preserved side that
    # reaches one partition in several batches, early batches fully matched, later ones with unmatched rows
    nB = 3 if tier == "quick" else 12
    for i in range(nB):
        cols = [("c0", "i32")]
        n_l = rng.choice([2, 3, 5])
        lrows = [["I%d" % (j + 1)] for j in range(n_l)]
        rrows = [["I%d" % (j + 1)] for j in range(n_l)] + [["I%d" % (50 + j)] for j in range(rng.choice([1, 3, 4]))] + ([["N"]] if rng.chance(50) else [])
        tables = [("t0", cols, lrows), ("t1", cols, rrows)]
        runs = []
        for kind in ("right", "left"):
            for op, sym in (("eq", "="), ("ge", ">=")):
                a, b = ("t0", "t1") if kind == "right" else ("t1", "t0")
                ia, ib = (0, 1) if kind == "right" else (1, 0)
                sql = "SELECT x1.c0 AS r0, x2.c0 AS r1 FROM %s AS x1 %s JOIN %s AS x2 ON (x1.c0 %s x2.c0)" % (a, kind.upper(), b, sym)
                sx = "(select (join %s (fq (table %d)) (fq (table %d)) (cmp %s (col 0 0) (col 0 1)) 1 1) - - - ((col 0 0) (col 0 1)) 0)" % (kind, ia, ib, op)
                q = sqlgen.Q(sql, sx, ["i32", "i32"], ["r0", "r1"], {"join_" + kind, "nl_outer_batches"})
                for bs in (1, 2, 3, 2048):
                    for hj in (False, True):
                        runs.append((q, {"partitions": rng.choice([1, 2]), "batch_size": bs, "enable_hash_joins": hj}))
        work.append({"id": "c03-nlj-%d" % i, "tables": tables, "runs": runs, "mode": "det", "det_partitions": 1,
                     "sched": {"kind": "fifo", "seed": 1}})
        # same idea for the extra (non-equality) conditions of a hash join: an equality plus a comparison whose
        # operands tie on some pairs, hash join vs nested loop
        cols2 = [("c0", "i32"), ("c1", "i32")]
        t2a = [["I%d" % rng.choice([1, 2]), "I%d" % rng.choice([10, 20, 30])] for _ in range(6)]
        t2b = [["I%d" % rng.choice([1, 2]), "I%d" % rng.choice([10, 20, 30])] for _ in range(6)]
        tables2 = [("t0", cols2, t2a), ("t1", cols2, t2b)]
        runs2 = []
        for kind in ("inner", "left"):
            for op, sym in (("ge", ">="), ("le", "<="), ("gt", ">"), ("lt", "<"), ("ne", "<>")):
                for flip in (False, True):
                    c = "(x1.c1 %s x2.c1)" % sym if not flip else "(x2.c1 %s x1.c1)" % sym
                    cx = "(cmp %s (col 0 1) (col 0 3))" % op if not flip else "(cmp %s (col 0 3) (col 0 1))" % op
                    sql = "SELECT x1.c0 AS r0, x1.c1 AS r1, x2.c1 AS r2 FROM t0 AS x1 %s JOIN t1 AS x2 ON ((x1.c0 = x2.c0) AND %s)" % (kind.upper(), c)
                    sx = "(select (join %s (fq (table 0)) (fq (table 1)) (and (cmp eq (col 0 0) (col 0 2)) %s) 2 2) - - - ((col 0 0) (col 0 1) (col 0 3)) 0)" % (kind, cx)
                    q = sqlgen.Q(sql, sx, ["i32", "i32", "i32"], ["r0", "r1", "r2"], {"join_" + kind, "hash_extra_cond"})
                    for hj in (False, True):
                        runs2.append((q, {"partitions": rng.choice([1, 2]), "batch_size": rng.choice([2, 2048]), "enable_hash_joins": hj}))
        work.append({"id": "c03-hjx-%d" % i, "tables": tables2, "runs": runs2, "mode": "det", "det_partitions": 1,
                     "sched": {"kind": "fifo", "seed": 1}})
    from . import sqlfam
    work += sqlfam.limit_offset_family(rng, 3 if tier == 'quick' else 15, 'c03')
    return work


def run(ctx):
    return sqlprop.run_property(
        ctx, PID, "props/C03.v", make_work,
        "LIMIT/OFFSET state machine emits exactly firstn/skipn of the interleaved input for every interleaving of partitions (no underflow, final after Exhausted); generate_series deals every value to exactly one partition for any partition count; plus the split-invariance theorems of C06 (joins), C07 (aggregates), C08 (sort/merge)",
        "each generated query runs under 5 configurations drawn from partitions {1,2,3,5,16,64,512} x batch_size {1,2,3,7,8,64,2048,8192} x hash joins on/off x threads {1,2,16} / deterministic schedules, over tables whose row counts sit at, below and above the batch sizes; every answer is judged against the reference semantics (hence all configurations agree); distinct = distinct (SQL text, config)",
        timeout_s=90)


def replay(ctx, payload):
    from . import sqlrun
    return sqlrun.replay(ctx, payload)
