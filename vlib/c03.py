"""C03 — Results are independent of partitions, batch size and join algorithm."""
from . import sqlprop, sqlgen

PID = "C03"


def make_work(rng, tier):
    n = 48 if tier == "quick" else 600
    work = []
    for i in range(n):
        # row counts at / around batch sizes so that exact multiples and off-by-one occur
        tables = sqlgen.make_db(rng, max_rows=rng.choice([7, 8, 16, 21, 64, 65]), edge_text=(i % 2 == 0))
        g = sqlgen.Gen(rng, tables, {"max_depth": 2, "ctes": False, "join_bias": i % 3 == 0, "order_chance": 60})
        qs = [g.query() for _ in range(2)]
        runs = []
        for q in qs:
            cfgs = [{"partitions": 1, "batch_size": 2048, "enable_hash_joins": True}]
            for _ in range(4):
                cfgs.append({"partitions": rng.choice([1, 2, 3, 5, 16, 64, 64, 512]),
                             "batch_size": rng.choice([1, 2, 3, 7, 8, 64, 2048, 8192]),
                             "enable_hash_joins": bool(rng.below(2))})
            for c in cfgs:
                runs.append((q, c))
        threaded = rng.chance(35)
        work.append({"id": "c03-%d" % i, "tables": tables, "runs": runs, "mode": "threaded" if threaded else "det",
                     "threads": rng.choice([1, 2, 16]), "det_partitions": rng.choice([1, 3]),
                     "sched": {"kind": rng.choice(["fifo", "lifo", "random"]), "seed": rng.below(1 << 30)}})
    return work


def run(ctx):
    return sqlprop.run_property(
        ctx, PID, "props/C03.v", make_work,
        "LIMIT/OFFSET state machine emits exactly firstn/skipn of the interleaved input for every interleaving of partitions (no underflow, final after Exhausted); generate_series deals every value to exactly one partition for any partition count; plus the split-invariance theorems of C06 (joins), C07 (aggregates), C08 (sort/merge)",
        "each generated query runs under 5 configurations drawn from partitions {1,2,3,5,16,64,512} x batch_size {1,2,3,7,8,64,2048,8192} x hash joins on/off x threads {1,2,16} / deterministic schedules, over tables whose row counts sit at, below and above the batch sizes; every answer is judged against the reference semantics (hence all configurations agree); distinct = distinct (SQL text, config)",
        timeout_s=90)


def replay(ctx, payload):
    from . import sqlrun
    return sqlrun.replay(ctx, payload)
