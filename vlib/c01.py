"""C01 — SELECT results equal SQL bag semantics for every query and database."""
from . import sqlprop, sqlgen

PID = "C01"


def make_work(rng, tier):
    n = 200 if tier == "quick" else 3000
    work = []
    for i in range(n):
        tables = sqlgen.make_db(rng, max_rows=rng.choice([12, 30, 30, 80]))
        g = sqlgen.Gen(rng, tables, {"max_depth": 3 if tier == "quick" else rng.choice([3, 4])})
        runs = []
        for _ in range(4):
            q = g.query()
            cfg = {"partitions": rng.choice([1, 2, 3, 8]), "enable_optimizer": rng.below(3) != 0}
            if rng.chance(30):
                cfg["batch_size"] = rng.choice([1, 2, 3, 7, 64])
            runs.append((q, cfg))
        det = rng.chance(75)
        work.append({"id": "c01-%d" % i, "tables": tables, "runs": runs, "mode": "det" if det else "threaded",
                     "threads": rng.choice([1, 4]), "det_partitions": rng.choice([1, 2, 4]),
                     "sched": {"kind": rng.choice(["fifo", "lifo", "random"]), "seed": rng.below(1 << 30), "spurious": rng.choice([0, 0, 10])}})
    from . import sqlfam
    work += sqlfam.using_family(rng, 2 if tier == 'quick' else 12, 'c01') + sqlfam.limit_offset_family(rng, 3 if tier == 'quick' else 15, 'c01')
    return work


def run(ctx):
    from . import c01plan, common
    res = run_sql(ctx)
    # planner transcription + composition theorem (model/Plan.v, props/C01plan.v)
    return common.merge_results(res, c01plan.run(ctx), "planner_composition")


def run_sql(ctx):
    return sqlprop.run_property(
        ctx, PID, "props/C01.v", make_work,
        "the judge applied to every engine answer is proved sound (bag equality / sorted-slice admission) over the executable reference semantics model/Sql.v",
        "type-directed random queries (projection, filter, inner/left/right/cross joins, derived tables, GROUP BY/HAVING, DISTINCT, UNION [ALL], ORDER BY/LIMIT/OFFSET, CTEs, scalar/EXISTS/IN subqueries incl. correlated) over 3 random small tables with NULLs, duplicates and empty tables; each run under a random (partitions, batch_size, optimizer, scheduler) configuration; distinct = distinct (SQL text, config)")


def replay(ctx, payload):
    from . import sqlrun
    return sqlrun.replay(ctx, payload)
