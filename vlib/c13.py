"""C13 — casts are exact-or-error and text round-trips every value.

Stages: proofs (props/C13.v) -> unit correspondence (gv_cast: the real parsers / formatters of
cast/parse.rs, cast/format.rs against the extracted model, plus the property-level round trip
parse(format v) = v on the real code) -> SQL correspondence (gverif sql: CAST(a AS T) for every
(source, target) pair that has a cast, every value of the 8/16-bit sources) -> classification of
every deviation from the specification into the narrow classes of findings/C13.json."""
import json, re, time
from fractions import Fraction
from . import common, gen, tables_cast

PID = "C13"
PROPS = "props/C13.v"

INTS = {"i8": (True, 8), "i16": (True, 16), "i32": (True, 32), "i64": (True, 64),
        "u8": (False, 8), "u16": (False, 16), "u32": (False, 32), "u64": (False, 64)}
FLOATS = {"f32": 32, "f64": 64}
SRC_DECS = ["dec(5,2)", "dec(3,0)", "dec(18,0)", "dec(18,9)", "dec(30,5)", "dec(38,10)", "dec(38,20)"]
TGT_DECS = SRC_DECS + ["dec(3,1)", "dec(4,1)", "dec(10,2)", "dec(18,10)", "dec(18,17)", "dec(38,0)", "dec(20,2)", "dec(38,30)", "dec(38,37)"]
SRC_TYPES = list(INTS) + list(FLOATS) + SRC_DECS + ["bool", "text", "date"]
TGT_TYPES = list(INTS) + list(FLOATS) + TGT_DECS + ["bool", "text", "date"]


def kind(t):
    if t in INTS:
        return "int"
    if t in FLOATS:
        return "float"
    if t.startswith("dec("):
        return "dec"
    return t


def mity(t):
    s, b = INTS[t]
    return ("s" if s else "u") + str(b)


def irange(t):
    s, b = INTS[t]
    return (-(1 << (b - 1)), (1 << (b - 1)) - 1) if s else (0, (1 << b) - 1)


def dps(t):
    p, s = t[4:-1].split(",")
    return int(p), int(s)


def dsto(t):
    return "d64" if dps(t)[0] <= 18 else "d128"


def hexs(s):
    return "x" + s.encode("utf-8").hex()


def unhex(x):
    return bytes.fromhex(x[1:]).decode("utf-8", "replace")


# ---------------------------------------------------------------- model requests
def model_req(S, T, cell):
    """-> (request line for the faithful model, request line for the Coq-side spec or None) or None when
    the pair is not modelled (float text, decimal->float)."""
    ks, kt = kind(S), kind(T)
    tag, body = cell[0], cell[1:]
    if ks == "int":
        v = int(body)
        if kt == "int":
            return "ii %s %s %d" % (mity(S), mity(T), v), "sii %s %d" % (mity(T), v)
        if kt == "date":
            return "ii %s s32 %d" % (mity(S), v), "sii s32 %d" % v
        if kt == "float":
            return "if %s %d" % (T, v), None
        if kt == "dec":
            p, s = dps(T)
            return "id 1 %s %s %d %d %d" % (mity(S), dsto(T), p, s, v), "sdd 0 %d %d %d" % (p, s, v)
        if kt == "text":
            return "fmti %d" % v, None
    if ks == "float":
        bits = int(body, 16)
        if kt == "int":
            return "fi %s %s %d" % (S, mity(T), bits), "sfi %s %s %d" % (S, mity(T), bits)
        if kt == "float":
            return "ff %s %s %d" % (S, T, bits), None
        if kt == "dec":
            p, s = dps(T)
            return "fd 1 %s %s %d %d %d" % (S, dsto(T), p, s, bits), "sfd %s %d %d %d" % (S, p, s, bits)
    if ks == "dec":
        v = int(body.split("/")[0])
        p1, s1 = dps(S)
        if kt == "dec":
            p, s = dps(T)
            return "dd 1 %s %d %s %d %d %d" % (dsto(S), s1, dsto(T), p, s, v), "sdd %d %d %d %d" % (s1, p, s, v)
        if kt == "text":
            return "fmtd 1 %s %d %d" % (dsto(S), s1, v), None
    if ks == "text":
        x = hexs(body)
        if kt == "int":
            return "pi %s %s" % (mity(T), x), None
        if kt == "dec":
            p, s = dps(T)
            return "pd 1 %s %d %d %s" % (dsto(T), p, s, x), "spd %d %d %s" % (p, s, x)
        if kt == "bool":
            return "pb %s" % x, None
        if kt == "date":
            return "pdate %s" % x, None
    return None


def out_cell(T, o):
    """model answer -> canonical outcome ('ok', cell) | ('err',) | ('panic',)"""
    if o in ("err", "none"):
        return ("err",)
    if o == "panic":
        return ("panic",)
    v = o[3:]
    kt = kind(T)
    if kt == "int":
        return ("ok", "I" + v)
    if kt == "date":
        return ("ok", "T" + v)
    if kt == "float":
        return ("ok", "F%x" % int(v))
    if kt == "dec":
        p, s = dps(T)
        return ("ok", "D%s/%d/%d" % (v, p, s))
    if kt == "bool":
        return ("ok", "B" + v)
    if kt == "text":
        return ("ok", "S" + unhex(v))
    raise ValueError(T)


def canon(T, cell):
    """NaNs compare as a class"""
    if kind(T) == "float" and cell[0] == "F":
        b = int(cell[1:], 16)
        if T == "f32" and (b >> 23) & 0xff == 0xff and b & 0x7fffff:
            return "Fnan"
        if T == "f64" and (b >> 52) & 0x7ff == 0x7ff and b & ((1 << 52) - 1):
            return "Fnan"
    return cell


def canon_out(T, o):
    return ("ok", canon(T, o[1])) if o[0] == "ok" else o


# ---------------------------------------------------------------- python-side specification
def float_exact(S, bits):
    """bit pattern -> Fraction | 'nan' | 'inf'"""
    mb, eb = (23, 8) if S == "f32" else (52, 11)
    mant = bits & ((1 << mb) - 1)
    ex = (bits >> mb) & ((1 << eb) - 1)
    neg = bits >> (mb + eb) & 1
    bias = (1 << (eb - 1)) - 1
    if ex == (1 << eb) - 1:
        return "nan" if mant else "inf"
    if ex == 0:
        q = Fraction(mant, 1) * Fraction(2) ** (1 - bias - mb)
    else:
        q = Fraction(mant + (1 << mb), 1) * Fraction(2) ** (ex - bias - mb)
    return -q if neg else q


def rha(q):
    """round half away from zero of a Fraction"""
    a = abs(q)
    n = (2 * a.numerator + a.denominator) // (2 * a.denominator)
    return -n if q < 0 else n


DEC_RE = re.compile(r"^[+-]?([0-9]*)(?:\.([0-9]*))?$")


def spec_text_decimal(text, p, s):
    m = DEC_RE.match(text)
    if not m or not ((m.group(1) or "") + (m.group(2) or "")):
        return ("err",)
    q = Fraction(int(m.group(1) or "0")) + (Fraction(int(m.group(2)), 10 ** len(m.group(2))) if m.group(2) else 0)
    if text.startswith("-"):
        q = -q
    d = rha(q * 10 ** s)
    return ("ok", "D%d/%d/%d" % (d, p, s)) if abs(d) < 10 ** p else ("err",)


def spec_float_decimal(S, bits, p, s):
    q = float_exact(S, bits)
    if q in ("nan", "inf"):
        return ("err",)
    d = rha(q * 10 ** s)
    return ("ok", "D%d/%d/%d" % (d, p, s)) if abs(d) < 10 ** p else ("err",)


INT_RE = re.compile(r"^[+-]?[0-9]+$")


def spec_text_int(text, T):
    if not INT_RE.match(text) or (text.startswith("-") and not INTS[T][0]):
        return ("err",)      # a minus sign is not part of an unsigned literal
    v = int(text)
    lo, hi = irange(T)
    return ("ok", "I%d" % v) if lo <= v <= hi else ("err",)


def py_spec(S, T, cell):
    ks, kt = kind(S), kind(T)
    if ks == "text" and kt == "dec":
        return spec_text_decimal(cell[1:], *dps(T))
    if ks == "text" and kt == "int":
        return spec_text_int(cell[1:], T)
    if ks == "float" and kt == "dec":
        return spec_float_decimal(S, int(cell[1:], 16), *dps(T))
    if ks == "dec" and kt == "float" and T == "f64":
        v = int(cell[1:].split("/")[0])
        return ("ok", "F%x" % gen.f64_bits(float(v) / float(10 ** dps(S)[1])))   # the same two IEEE operations
    return None


# ---------------------------------------------------------------- known classes (findings/C13.json)
def classify(S, T, cell, impl, spec):
    """impl deviates from spec (and equals the faithful model): -> id of a finding that is still open, or None.
    The repaired defects (findings/C13.json "fixed") have no class any more: if one of them comes back the
    implementation differs from the re-transcribed model and/or from the specification -> violation."""
    ks, kt = kind(S), kind(T)
    if ks == "float" and kt == "dec" and float_product_exact(S, int(cell[1:], 16), dps(T)[1]):
        return None      # C13_float_to_decimal_exact_when_representable: no deviation is allowed here
    if ks == "float" and kt == "dec" and impl[0] == "ok" and spec[0] == "ok":
        a, b = int(impl[1][1:].split("/")[0]), int(spec[1][1:].split("/")[0])
        # the product v * 10^s is rounded to f64 before .round(): at most one f64 ulp of the product (and one unit
        # from the second rounding); 10^s itself is a rounded f64 for s > 22
        extra = 2 if dps(T)[1] > 22 else 0
        if abs(a - b) <= max(1, 1 << max(abs(b).bit_length() - 52 + extra, 0)):
            return "float-to-decimal-product-rounded-twice"
    if ks == "float" and kt == "dec" and {impl[0], spec[0]} == {"ok", "err"}:
        ok = impl if impl[0] == "ok" else spec
        b = int(ok[1][1:].split("/")[0])
        extra = 2 if dps(T)[1] > 22 else 0
        lim = min(10 ** dps(T)[0], 1 << (63 if dsto(T) == "d64" else 127))
        if abs(abs(b) - lim) <= max(1, 1 << max(abs(b).bit_length() - 52 + extra, 0)):
            return "float-to-decimal-product-rounded-twice"
    return None


def float_product_exact(S, bits, s):
    """the hypotheses of C13_float_to_decimal_exact_when_representable: the mantissa is a * 2^t with a * 5^s < 2^53
    (every f32 for s <= 12), the scale is at most 22 and the product does not overflow f64"""
    mb, eb = (23, 8) if S == "f32" else (52, 11)
    mant = bits & ((1 << mb) - 1)
    ex = (bits >> mb) & ((1 << eb) - 1)
    bias = (1 << (eb - 1)) - 1
    if ex == (1 << eb) - 1:
        return False
    m, e = (mant, 1 - bias - mb) if ex == 0 else (mant + (1 << mb), ex - bias - mb)
    if m == 0:
        return 0 <= s <= 22
    t = (m & -m).bit_length() - 1
    a = m >> t
    return 0 <= s <= 22 and a * 5 ** s < 1 << 53 and e >= -1074 and e + t + s <= 971


# ---------------------------------------------------------------- value pools
def int_values(t, rng, tier):
    lo, hi = irange(t)
    if INTS[t][1] <= 16:
        return list(range(lo, hi + 1))
    pool = set(gen.int_pool(INTS[t][1] // 8, INTS[t][0]))
    for k in (2, 3, 4, 5, 9, 10, 17, 18, 19, 20):
        for d in (-1, 0, 1):
            for sg in (1, -1):
                pool.add(sg * (10 ** k + d))
    for b in (7, 8, 15, 16, 24, 31, 32, 53, 63, 64):
        for d in (-1, 0, 1):
            for sg in (1, -1):
                pool.add(sg * ((1 << b) + d))
    pool |= {16777217, 16777219, 9007199254740993, 9007199254740995, 719162, -719162, 2932896}
    for _ in range(20 if tier == "quick" else 400):
        pool.add(lo + rng.next() % (hi - lo + 1))
    return sorted(x for x in pool if lo <= x <= hi)


def float_values(t, rng, tier):
    import struct
    xs = [0.0, -0.0, 0.5, -0.5, 1.5, 2.5, -1.5, -2.5, 0.49999999999999994, 127.5, 127.99, 128.0, -128.5, -128.99, -129.0,
          255.5, 256.0, -0.99, -1.0, 32767.5, 32768.0, -32768.5, -32769.0, 65535.5, 65536.0, 2147483647.0, 2147483647.5,
          2147483648.0, -2147483648.0, -2147483648.5, -2147483649.0, 4294967295.5, 4294967296.0, 9223372036854775807.0,
          9223372036854774784.0, -9223372036854775808.0, -9223372036854777856.0, 18446744073709551615.0, 18446744073709549568.0,
          1.115, 1.005, 0.285, 0.125, 2.675, 999.995, 999.985, 99.995, 9.5, 1e10, 1e18, 1e19, 1e-7, 123456.789, 0.1, 0.2, 0.3,
          1e30, -1e30, 1e38, 3.4028234663852886e38, 1e39, 1e300, 5e-324, 1e-40, 1.1, 16777217.0, 0.045, 99999.5, 999.5, 99.95]
    bits = set()
    for x in xs:
        if t == "f64":
            bits.add(gen.f64_bits(x))
        else:
            try:
                bits.add(gen.f32_bits(x))
            except OverflowError:
                pass
    bits |= set(gen.F64_POOL if t == "f64" else gen.F32_POOL)
    for _ in range(30 if tier == "quick" else 600):
        b = rng.next() & ((1 << FLOATS[t]) - 1)
        bits.add(b)
        # moderate magnitudes: exponent near zero
        if t == "f64":
            bits.add((b & 0x800fffffffffffff) | ((1023 + rng.below(70) - 5) << 52))
        else:
            bits.add((b & 0x807fffff) | ((127 + rng.below(70) - 5) << 23))
    out = []
    for b in sorted(bits):
        if t == "f64" and (b >> 52) & 0x7ff == 0x7ff and b & ((1 << 52) - 1):
            b = 0x7ff8000000000000
        if t == "f32" and (b >> 23) & 0xff == 0xff and b & 0x7fffff:
            b = 0x7fc00000
        if b not in out:
            out.append(b)
    return out


def dec_values(t, rng, tier):
    p, s = dps(t)
    lim = 10 ** p - 1
    pool = {0, 1, -1, lim, -lim, lim // 2, 10 ** s, -(10 ** s), 5 * 10 ** max(s - 1, 0), -5 * 10 ** max(s - 1, 0),
            15 * 10 ** max(s - 1, 0), -15 * 10 ** max(s - 1, 0), 25 * 10 ** max(s - 1, 0), 14 * 10 ** max(s - 1, 0),
            12345, -12345, 12344, 12346, 12355, 995, 9995, 99995, -99995, 15, 25, -15, -25, 149, 150, 151, 49, 50, 51}
    for k in range(0, p + 1):
        for d in (-1, 0, 1):
            pool.add(10 ** k + d)
            pool.add(-(10 ** k + d))
            pool.add(5 * 10 ** k + d)
            pool.add(10 ** k - 5 * 10 ** max(k - 1, 0) + d)
    for _ in range(20 if tier == "quick" else 400):
        pool.add(rng.next() % (2 * lim + 1) - lim)
    return sorted(x for x in pool if abs(x) <= lim)


TEXT_INT = ["0", "-0", "+0", "5", "+5", "-5", "0005", "-0005", "127", "128", "-128", "-129", "255", "256", "32767", "32768",
            "-32768", "-32769", "65535", "65536", "2147483647", "2147483648", "-2147483648", "-2147483649", "4294967295",
            "4294967296", "9223372036854775807", "9223372036854775808", "-9223372036854775808", "-9223372036854775809",
            "18446744073709551615", "18446744073709551616", "99999999999999999999999999999", "", " ", "-", "+", "+-5", "--5",
            " 5", "5 ", " 5 ", "5a", "a5", "5.0", "5.", ".5", "1e3", "0x10", "1_000", "1,000", "５", "٣", "5\t", "\n5", "+ 5",
            "- 5", "00000000000000000000000000000000000001", "-00000000000000000000000000000000000001", "true", "NaN", "inf", "5-"]
TEXT_DEC = ["0", "0.0", "1", "-1", "+1", "12.3", "12.34", "12.345", "12.349", "12.344", "12.346", "-12.345", "12.3449999", "0.005",
            "0.004", "-0.005", "0.0049", "999.99", "999.994", "999.995", "999.999", "-999.995", "99.95", "9.5", "9.49", "0.5", "0.05",
            "10", "100", "1000", "99999", "100000", "12345.67", "123.45", "1234.5", "", "-", "+", ".", "+.", "-.", "..", "1.", ".5",
            "-.5", "1..2", "1.2.3", " 1", "1 ", "1a", "a1", "1e3", "1E3", "--1", "+-1", "0000000000000000000000000012.5",
            "0.000000000000000000000000000000000000001", "99999999999999999999999", "999999999999999999", "9999999999999999999",
            "1000000000000000000", "123456789012345678901234567890123456789", "99999999999999999999999999999999999999",
            "0.999999999999999999", "0.9999999999999999999", "1.5", "2.5", "-2.5", "0.125", "１", "1,5", "0x1", "9.999999999999999999999",
            "99999.99999", "0.99", "0.995", "00.5", "-0", "-0.0", "-0.004"]
TEXT_BOOL = ["t", "true", "TRUE", "T", "f", "false", "FALSE", "F", "True", "False", "tRUE", "1", "0", "yes", "no", "", " true", "true ",
             "truee", "tr", "on", "off", "y", "n", "null", "t ", "TRUE\n"]
TEXT_DATE = ["1970-01-01", "1969-12-31", "2000-02-29", "1900-02-29", "2100-02-29", "2020-02-29", "2021-02-29", "2020-02-30", "2020-12-31",
             "2021-01-01", "1999-12-31", "2000-01-01", "0001-01-01", "0000-01-01", "0000-12-31", "-0001-12-31", "-0001-01-01", "9999-12-31",
             "+10000-01-01", "10000-01-01", "+9999-12-31", "2020-1-5", "2020-01-5", "2020-1-05", "2020-13-01", "2020-00-01", "2020-01-00",
             "2020-01-32", "2020-04-31", "2020-06-30", "2020-06-31", " 2020-01-05", "2020-01-05 ", "2020 - 01 - 05", "2020-01-05x",
             "x2020-01-05", "2020-01-05 00:00:00", "2020/01/05", "20200105", "2020-01", "2020", "", "-", "--", "2020--01-05", "2020-01-05-",
             "+262142-12-31", "+262143-01-01", "-262143-01-01", "-262144-12-31", "+2147483648-01-01", "+99999999999999999999-01-01",
             "1-1-1", "12-1-1", "123-1-1", "02020-01-05", "2020-001-05", "2020-01-005", "2020-02-28", "2020-03-01", "2019-02-28", "2019-03-01",
             "1600-02-29", "1700-02-29", "2400-02-29", "+2020-01-05", "-2020-01-05", "２０２０-01-05", "2020\t-01-05", "\n2020-01-05\n",
             "1582-10-10", "1752-09-05", "0400-02-29", "-0400-02-29", "-0004-02-29", "-0100-02-29"]
DATE_DAYS = [0, -1, 1, 59, 60, 365, 366, 11016, 11017, 18262, 18263, 18321, 18322, 19782, -719162, -719163, -719528, -719529, -719893,
             2932896, 2932897, -141427, -25567, 47482, 95026236, 95026237, 95026600, -96465658, -96465659, -96465292, 2147483647,
             -2147483648, 100000000, -100000000, 730, 1095, 1096, 1461, 10957, 10958, 11322, 11323, 36523, 36524, 36525, 146096, 146097]


def text_values(rng, tier):
    return TEXT_INT + [x for x in TEXT_DEC + TEXT_BOOL + TEXT_DATE if x not in TEXT_INT]


# ---------------------------------------------------------------- unit stage (gv_cast)
def stage_units(ctx, rng, gcast, gmodel):
    tier = ctx["tier"]
    cases, meta = [], []   # meta: list of (case id, [(model line, T kind for rendering, input descr)])

    def add(op, items, mlines, extra=None, descr=None):
        cid = "u%d" % len(cases)
        c = {"id": cid, "op": op, "items": items}
        c.update(extra or {})
        cases.append(c)
        meta.append((c, mlines, descr or items))

    # integers: format / parse for every value of the 8/16-bit types, pools for the wide ones
    for t in list(INTS) + ["i128", "u128"]:
        if t in INTS:
            vals = int_values(t, rng, tier)
            mt = mity(t)
        else:
            mt = "s128" if t == "i128" else "u128"
            lo, hi = (-(1 << 127), (1 << 127) - 1) if t == "i128" else (0, (1 << 128) - 1)
            vals = sorted({lo, lo + 1, hi, hi - 1, 0, 1, 10 ** 38, 10 ** 38 - 1, hi // 3} | ({-1, -10 ** 38} if lo < 0 else set()))
        add("fmt_int", [str(v) for v in vals], ["fmti %d" % v for v in vals], {"ty": mt})
        txt = [str(v) for v in vals] if len(vals) > 300 else [str(v) for v in vals] + TEXT_INT
        add("parse_int", [hexs(x) for x in txt], ["pi %s %s" % (mt, hexs(x)) for x in txt], {"ty": mt}, txt)
    # decimals
    grid = [(64, 5, 2), (64, 3, 0), (64, 3, 2), (64, 18, 0), (64, 18, 9), (64, 18, 18), (128, 30, 5), (128, 38, 10), (128, 38, 38),
            (128, 38, 0), (64, 1, 0), (64, 1, 1), (64, 5, -2), (128, 20, 2)]
    for bits, p, s in grid:
        st = "d64" if bits == 64 else "d128"
        vals = dec_values("dec(%d,%d)" % (p, s), rng, tier) if s >= 0 else [0, 1, -1, 99999, -99999, 123]
        add("fmt_dec", [str(v) for v in vals], ["fmtd 1 %s %d %d" % (st, s, v) for v in vals], {"bits": bits, "p": p, "s": s},
            ["%d@(%d,%d)" % (v, p, s) for v in vals])
        add("parse_dec", [hexs(x) for x in TEXT_DEC], ["pd 1 %s %d %d %s" % (st, p, s, hexs(x)) for x in TEXT_DEC],
            {"bits": bits, "p": p, "s": s}, ["%s@(%d,%d)" % (x, p, s) for x in TEXT_DEC])
    add("parse_bool", [hexs(x) for x in TEXT_BOOL], ["pb %s" % hexs(x) for x in TEXT_BOOL], None, TEXT_BOOL)
    add("fmt_bool", ["1", "0"], ["fmtb 1", "fmtb 0"])
    # dates: every day of 1599-2101 (quick) plus far years and the limits of the supported range
    days = set(DATE_DAYS)
    span = range(-135500, 48000) if tier == "quick" else range(-800000, 3000000)
    days |= set(span)
    for _ in range(2000 if tier == "quick" else 100000):
        days.add(rng.next() % 191491900 - 96465659)
    days = sorted(days)
    add("fmt_date", [str(d) for d in days], ["fmtdate %d" % d for d in days])
    add("parse_date", [hexs(x) for x in TEXT_DATE], ["pdate %s" % hexs(x) for x in TEXT_DATE], None, TEXT_DATE)
    # intervals
    ivs = [(2, 0, 0), (1, 0, 0), (12, 0, 0), (14, 11, 10824982000000), (0, 1, 0), (0, 2, 0), (0, 0, 3600000000000), (0, 0, 1000000000),
           (0, 0, 1), (0, 0, 999999), (0, 0, 1000000), (0, -1, 0), (-1, 0, 0), (0, 0, -3600000000000), (24, 0, 0), (0, 0, 0), (0, 45, 0),
           (0, 0, 86400000000000), (0, 0, 5400000000000), (25, 3, 0), (0, 7, 3600000000000)]
    add("fmt_iv", ["%d/%d/%d" % x for x in ivs], ["fmtiv %d %d %d" % x for x in ivs])
    ivt = ["2 months", "2 mons", "1 month", "1 mon", "1 year", "2 years", "1 day", "3 days", "1 day 3 hours", "2 weeks", "1 hour", "90 minutes",
           "1 sec", "5 secs", "1 millisecond", "7 microseconds", "9 nanoseconds", "1 decade", "2 centuries", "1 millenium", "1 YEAR 2 MONTHS",
           "1", "-1", "1 day 2", "1 fortnight", "day 1", "", "1 year 2 mons 11 days", "-1 day", "-3 hours", "  1   day  ", "1 days 1 days"]
    add("parse_iv", [hexs(x) for x in ivt], ["piv %s" % hexs(x) for x in ivt], None, ivt)

    real = common.run_harness(gcast, [], cases, timeout=900)
    lines = [l for _, ml, _ in meta for l in ml]
    mout = common.run_model(gmodel, "eval", lines, timeout=900)
    pos, mism, n, known = 0, [], 0, {}
    fmt_results = {}
    for (c, ml, descr), r in zip(meta, real):
        want = mout[pos:pos + len(ml)]
        pos += len(ml)
        got = r.get("out")
        if got is None or len(got) != len(ml):
            mism.append({"case": c["op"], "harness": r})
            continue
        n += len(ml)
        for i, (g, w) in enumerate(zip(got, want)):
            gg = "panic" if g.startswith("panic") else g
            ww = "none" if w == "err" else w
            if gg != ww:
                m_ = {"op": c["op"], "params": {k: v for k, v in c.items() if k in ("ty", "bits", "p", "s")},
                      "input": descr[i] if descr else c["items"][i], "real": g, "model": w}
                if c["op"].startswith("parse_") and c["items"][i].startswith("x"):
                    sqlt = {"parse_dec": "decimal(%s,%s)" % (c.get("p"), c.get("s")), "parse_date": "date", "parse_bool": "boolean",
                            "parse_iv": "interval", "parse_int": {"s8": "tinyint", "s16": "smallint", "s32": "int", "s64": "bigint",
                                                                  "u8": "utinyint", "u16": "usmallint", "u32": "uint", "u64": "ubigint"}.get(c.get("ty"), "?")}[c["op"]]
                    m_["sql"] = ["select cast('%s' as %s)" % (unhex(c["items"][i]), sqlt)]
                mism.append(m_)
        fmt_results[c["id"]] = (c, got, descr)
    # property level on the real code: parse(format v) = v, and the spec of text -> decimal / integer
    rt_cases, rt_meta = [], []
    for cid, (c, got, descr) in fmt_results.items():
        if c["op"] in ("fmt_int", "fmt_dec", "fmt_date", "fmt_iv", "fmt_bool"):
            pop = {"fmt_int": "parse_int", "fmt_dec": "parse_dec", "fmt_date": "parse_date", "fmt_iv": "parse_iv", "fmt_bool": "parse_bool"}[c["op"]]
            idx = [i for i, g in enumerate(got) if g.startswith("ok ")]
            rc = {"id": "r" + cid, "op": pop, "items": [got[i][3:] for i in idx]}
            rc.update({k: v for k, v in c.items() if k in ("ty", "bits", "p", "s")})
            rt_cases.append(rc)
            rt_meta.append((c, idx))
    rt = common.run_harness(gcast, [], rt_cases, timeout=900)
    viol, nrt = [], 0
    for (c, idx), rc, r in zip(rt_meta, rt_cases, rt):
        got = r.get("out", [])
        for j, i in enumerate(idx):
            nrt += 1
            src = c["items"][i]
            want = "ok " + ("1" if src == "1" else "0") if c["op"] == "fmt_bool" else "ok " + src
            if c["op"] == "fmt_dec" and c["s"] < 0:
                continue
            if j >= len(got) or got[j] != want:
                g = got[j] if j < len(got) else "?"
                if c["op"] == "fmt_iv":
                    m_, d_, n_ = [int(x) for x in src.split("/")]
                    if m_ % 12 != 0 or m_ < 0 or d_ < 0 or n_ != 0:
                        known.setdefault("interval-text-roundtrip", []).append({"interval": src, "text": unhex(rc["items"][j]), "parsed": g})
                        continue
                viol.append({"kind": "text round trip on the real formatter/parser", "op": c["op"], "value": src,
                             "params": {k: v for k, v in c.items() if k in ("ty", "bits", "p", "s")},
                             "text": unhex(rc["items"][j]), "parsed_back": g})
    # spec deviations of the real text parsers (already equal to the model where no mismatch)
    for cid, (c, got, descr) in fmt_results.items():
        if c["op"] == "parse_dec":
            T = "dec(%d,%d)" % (c["p"], c["s"])
            for i, g in enumerate(got):
                text = unhex(c["items"][i])
                impl = ("panic",) if g.startswith("panic") else ("err",) if g == "none" else ("ok", "D%s/%d/%d" % (g[3:], c["p"], c["s"]))
                if c["s"] < 0:
                    if impl == ("panic",):
                        viol.append({"kind": "text->decimal with a negative scale panics", "text": text, "type": T,
                                     "sql": ["select cast('%s' as decimal(%d,%d))" % (text, c["p"], c["s"])]})
                    continue
                spec = spec_text_decimal(text, c["p"], c["s"])
                if impl != spec:
                    k = classify("text", T, "S" + text, impl, spec)
                    if k:
                        known.setdefault(k, []).append({"text": text, "type": T, "impl": impl, "spec": spec})
                    else:
                        viol.append({"kind": "text->decimal deviates from the specification outside the known classes",
                                     "text": text, "type": T, "impl": impl, "spec": spec,
                                     "sql": ["select cast('%s' as decimal(%d,%d))" % (text, c["p"], c["s"])]})
        if c["op"] == "parse_int" and c["ty"] in ("s8", "s16", "s32", "s64", "u8", "u16", "u32", "u64"):
            T = {"s": "i", "u": "u"}[c["ty"][0]] + c["ty"][1:]
            for i, g in enumerate(got):
                text = unhex(c["items"][i])
                impl = ("panic",) if g.startswith("panic") else ("err",) if g == "none" else ("ok", "I" + g[3:])
                spec = spec_text_int(text, T)
                if impl != spec:
                    viol.append({"kind": "text->integer deviates from the specification", "text": text, "type": T, "impl": impl, "spec": spec})
    return {"evaluations": n + nrt, "roundtrips": nrt, "mismatches": mism, "violations": viol, "known": known,
            "days_formatted": len(days), "cases": len(cases)}


# ---------------------------------------------------------------- SQL stage
def cells_for(S, rng, tier):
    k = kind(S)
    if k == "int":
        return ["I%d" % v for v in int_values(S, rng, tier)]
    if k == "float":
        return ["F%x" % b for b in float_values(S, rng, tier)]
    if k == "dec":
        p, s = dps(S)
        return ["D%d/%d/%d" % (v, p, s) for v in dec_values(S, rng, tier)]
    if k == "bool":
        return ["B1", "B0"]
    if k == "date":
        return ["T%d" % d for d in DATE_DAYS if -719162 <= d <= 2932896]
    if k == "text":
        return ["S" + x for x in text_values(rng, tier) if "'" not in x]
    raise ValueError(S)


def setup_stmts(S, cells):
    sqlt = gen.tinfo(S)[0]
    if S in INTS and INTS[S][1] <= 16:
        lo, hi = irange(S)
        return ["create temp table t as select cast(a as int) rid, cast(a as %s) a from generate_series(%d, %d) g(a)" % (sqlt, lo, hi)]
    cols = [("rid", "i32"), ("a", S)]
    rows = [["I%d" % i, c] for i, c in enumerate(cells)]
    return [gen.create_table("t", cols)] + gen.insert_rows("t", cols, rows, chunk=100)


def lit(S, cell):
    if kind(S) == "text":
        return "'" + cell[1:] + "'"
    return gen.sql_lit(S, cell)


def res_outcome(r):
    if r is None:
        return ("missing",)
    if "panic" in r:
        return ("panic",)
    if r.get("ok"):
        return ("rows", r["rows"])
    if "err" in r:
        return ("err",)
    return ("other", json.dumps(r)[:200])


def stage_sql(ctx, rng, gverif, gmodel):
    tier = ctx["tier"]
    viol, known, pairs, nocast = [], {}, [], []
    nvals = 0
    distinct = set()
    samples = []
    timing = {}
    for S in SRC_TYPES:
        timing[S] = -time.time()
        cells0 = cells_for(S, rng, tier)
        setup = setup_stmts(S, cells0)
        sqlS = gen.tinfo(S)[0]
        pcases = [{"id": "p" + T, "mode": "det", "partitions": 1, "timeout_s": 60,
                   "stmts": ["create temp table t (a %s)" % sqlS, "select cast(a as %s) from t" % gen.tinfo(T)[0]]} for T in TGT_TYPES]
        pres = [(x.get("results") or [{}, {}])[-1] for x in common.run_harness(gverif, "sql", pcases, timeout=300)]
        r = common.run_harness(gverif, "sql", [{"id": "p", "mode": "det", "partitions": 1, "timeout_s": 120,
                                                "stmts": setup + ["select rid, a from t"]}], timeout=300)[0]
        res = r.get("results", [])
        if len(res) < len(setup) + 1 or any(not x.get("ok") for x in res[:len(setup) + 1]):
            bad = [(s, x) for s, x in zip(setup + ["select"], res) if not x.get("ok")][:1]
            # a value of the pool cannot even be stored: find which (text -> S is itself a cast under test)
            viol.append({"kind": "setup failed", "source": S, "first_error": str(bad)[:400]})
            continue
        stored = {int(row[0][1:]): row[1] for row in res[len(setup)]["rows"]}
        if S in INTS and INTS[S][1] <= 16:
            cells = ["I%d" % v for v in range(*[irange(S)[0], irange(S)[1] + 1])]
            rid_of = {c: int(c[1:]) for c in cells}
            if sorted(stored) != sorted(rid_of.values()) or any(stored[k] != "I%d" % k for k in stored):
                viol.append({"kind": "generate_series table differs", "source": S})
                continue
        else:
            cells, rid_of = [], {}
            for i, c in enumerate(cells0):
                got = stored.get(i)
                if got is None or canon(S, got) != canon(S, c):
                    viol.append({"kind": "stored value differs from the inserted literal", "source": S, "literal": lit(S, c), "stored": got})
                    continue
                cells.append(c)
                rid_of[c] = i
        targets, bind_panics = [], []
        for T, x in zip(TGT_TYPES, pres):
            if x.get("ok"):
                if T != S:
                    targets.append(T)
            elif ("panic" in x or "Cannot rescale decimal" in x.get("err", "")) and T != S:
                bind_panics.append(T)      # the cast function's bind panics / fails: every value of the pair does
            elif "cannot handle source type" in x.get("err", "") or "Unable to find cast" in x.get("err", ""):
                nocast.append("%s->%s" % (S, T))
            elif T != S:
                viol.append({"kind": "cast cannot be planned", "source": S, "target": T, "result": x})
        # quick tier, 16-bit sources: every value to the narrow targets, a boundary-biased 1/16 sample to the others
        cells_of = {}
        if S in INTS and INTS[S][1] == 16 and tier == "quick":
            lo16, hi16 = irange(S)
            near = set()
            for b in (0, 127, 128, 255, 256, 999, 1000, 9999, 10000, 32767, 32768, 65535, -128, -129, -999, -1000, -9999, -10000, -32768):
                near |= set(range(b - 40, b + 41))
            sub = ["I%d" % v for v in range(lo16, hi16 + 1) if v in near or (v - lo16) % 16 == ctx["seed"] % 16]
            subset = set(sub)
            full16 = {"i8", "u8", "text", "dec(3,0)", "u16" if S == "i16" else "i16"}
            for T in targets + bind_panics:
                cells_of[T] = cells if T in full16 else sub
        else:
            for T in targets + bind_panics:
                cells_of[T] = cells
        # expectations
        plan = []   # (T, cell, model outcome, spec outcome or None)
        lines, where = [], []
        for T in targets + bind_panics:
            for c in (cells_of[T] if T in targets else cells[:3] + cells[-3:]):
                mr = model_req(S, T, c)
                if mr is None:
                    plan.append([T, c, None, py_spec(S, T, c)])
                    continue
                plan.append([T, c, len(lines), None])
                lines.append(mr[0])
                if mr[1]:
                    plan[-1][3] = ("line", len(lines))
                    lines.append(mr[1])
                else:
                    plan[-1][3] = py_spec(S, T, c)
        mout = common.run_model(gmodel, "eval", lines, timeout=1200) if lines else []
        exp = {}
        for T, c, mi, sp in plan:
            model = canon_out(T, out_cell(T, mout[mi])) if mi is not None else None
            if isinstance(sp, tuple) and sp and sp[0] == "line":
                sp = canon_out(T, out_cell(T, mout[sp[1]]))
                py = py_spec(S, T, c)      # the independent (exact rational) specification must agree with the Coq-side one
                if py is not None and canon_out(T, py) != sp:
                    viol.append({"kind": "Coq-side specification differs from the exact-rational specification (%s -> %s)" % (S, T),
                                 "value": c, "coq_spec": sp, "python_spec": py})
            elif sp is not None:
                sp = canon_out(T, sp)
            exp[(T, c)] = (model, sp)
        # statements: one bulk statement per target over the rows predicted to succeed, one statement per
        # value predicted to fail (sampled for the 16-bit sources), each predicted panic in its own engine
        stmts, smeta, solo = [], [], []
        for T in targets:
            sqlT = gen.tinfo(T)[0]
            cellsT = cells_of[T]
            okc = [c for c in cellsT if (exp[(T, c)][0] or exp[(T, c)][1] or ("ok",))[0] == "ok"]
            okset_c = set(okc)
            bad = [c for c in cellsT if c not in okset_c] if len(okc) != len(cellsT) else []
            if S in INTS and INTS[S][1] <= 16:
                vs = sorted(int(c[1:]) for c in okc)
                tbl = "ts" if cellsT is not cells else "t"
                contiguous = vs and len(vs) == sum(1 for c in cellsT if vs[0] <= int(c[1:]) <= vs[-1])
                if contiguous:
                    stmts.append("select a, cast(a as %s) from %s where a between %d and %d" % (sqlT, tbl, vs[0], vs[-1]))
                    smeta.append(("bulk", T, okc))
                elif vs:
                    for i in range(0, len(vs), 400):
                        stmts.append("select a, cast(a as %s) from t where rid in (%s)" % (sqlT, ", ".join(str(v) for v in vs[i:i + 400])))
                        smeta.append(("bulk", T, ["I%d" % v for v in vs[i:i + 400]]))
                if bad:
                    bv = sorted(int(c[1:]) for c in bad)
                    stmts.append("select a, cast(a as %s) from t where rid in (%s)" % (sqlT, ", ".join(str(v) for v in bv[:400])))
                    smeta.append(("allbad", T, ["I%d" % v for v in bv[:400]]))
                    if INTS[S][1] == 16 and tier == "quick":
                        edge = set()
                        okset = set(vs)
                        for v in bv:
                            if any((v + d) in okset for d in range(-3, 4)):
                                edge.add(v)
                        pick = sorted(edge | set(bv[:2]) | set(bv[-2:]) | set(bv[::max(1, len(bv) // 40)]))
                        bad = ["I%d" % v for v in pick]
            else:
                if okc:
                    stmts.append("select a, cast(a as %s) from t where rid in (%s)" % (sqlT, ", ".join(str(rid_of[c]) for c in okc)))
                    smeta.append(("bulk", T, okc))
            for c in bad:
                m = exp[(T, c)][0]
                if m == ("panic",):
                    solo.append((T, c))
                else:
                    stmts.append("select cast(a as %s) from t where rid = %d" % (sqlT, rid_of[c]))
                    smeta.append(("one", T, [c]))
        for T in bind_panics:
            for c in cells[:3] + cells[-3:]:
                solo.append((T, c))
        if S in INTS and INTS[S][1] == 16 and tier == "quick":
            sv = sorted(int(c[1:]) for c in sub)
            runs, st = [], sv[0]
            for x, y in zip(sv, sv[1:] + [None]):
                if y != x + 1:
                    runs.append((st, x))
                    st = y
            long_runs = [(x, y) for x, y in runs if y > x]
            pred = " or ".join(["(rid - (%d)) %% 16 = %d" % (lo16, ctx["seed"] % 16)] + ["rid between %d and %d" % xy for xy in long_runs])
            setup = setup + ["create temp table ts as select rid, a from t where " + pred]
        case = {"id": "s", "mode": "det", "partitions": 1, "timeout_s": 600, "stmts": setup + stmts}
        solo_cases = [{"id": "solo%d" % i, "mode": "det", "partitions": 1, "timeout_s": 60,
                       "stmts": ["select cast(%s as %s)" % (lit(S, c), gen.tinfo(T)[0])]} for i, (T, c) in enumerate(solo)]
        out = common.run_harness(gverif, "sql", [case] + solo_cases, timeout=1800)
        res = out[0].get("results", [])[len(setup):]
        observed = []   # (T, cell, impl outcome, sql)

        def rerun_individually(T, cs):
            """a bulk statement did not return rows: get per-value outcomes in fresh engines"""
            cs2 = cs if len(cs) <= 600 else cs[:200] + cs[len(cs) // 2 - 100:len(cs) // 2 + 100] + cs[-200:]
            cc = [{"id": "i%d" % i, "mode": "det", "partitions": 1, "timeout_s": 60,
                   "stmts": ["select cast(%s as %s)" % (lit(S, c), gen.tinfo(T)[0])]} for i, c in enumerate(cs2)]
            rr = common.run_harness(gverif, "sql", cc, timeout=900)
            for c, x in zip(cs2, rr):
                o = res_outcome((x.get("results") or [None])[-1])
                if o[0] == "rows":
                    o = ("ok", o[1][0][0]) if len(o[1]) == 1 else ("other", "rows")
                observed.append((T, c, o, cc[0]["stmts"][0].replace(lit(S, cs2[0]), lit(S, c))))

        died = len(res) < len(stmts)
        for i, ((knd, T, cs), sql) in enumerate(zip(smeta, stmts)):
            o = res_outcome(res[i]) if i < len(res) else ("missing",)
            if knd == "bulk":
                if o[0] == "rows":
                    got = {canon(S, row[0]): row[1] for row in o[1]}
                    for c in cs:
                        g = got.get(canon(S, c))
                        observed.append((T, c, ("ok", g) if g is not None else ("other", "row missing"), sql))
                else:
                    rerun_individually(T, cs)
            elif knd == "allbad":
                if o[0] == "rows":   # every value predicted to fail succeeded
                    rerun_individually(T, cs)
            else:
                if o[0] == "rows":
                    o = ("ok", o[1][0][0]) if len(o[1]) == 1 else ("other", "rows")
                if o[0] == "missing":
                    rerun_individually(T, cs)
                else:
                    observed.append((T, cs[0], o, sql))
        for (T, c), x, sc in zip(solo, out[1:], solo_cases):
            o = res_outcome((x.get("results") or [None])[-1])
            if o[0] == "rows":
                o = ("ok", o[1][0][0]) if len(o[1]) == 1 else ("other", "rows")
            observed.append((T, c, o, sc["stmts"][0]))
        # verdicts
        seen_pairs = set()
        for T, c, impl, sql in observed:
            nvals += 1
            seen_pairs.add(T)
            model, spec = exp[(T, c)]
            impl = canon_out(T, impl) if impl[0] == "ok" and impl[1] is not None else impl
            distinct.add((S, T, impl[0], impl[1] if impl[0] == "ok" and len(distinct) < 200000 else ""))
            replay = {"sql": ["select cast(%s as %s)" % (lit(S, c), gen.tinfo(T)[0])], "statement_used": sql, "source": S, "target": T,
                      "value": c, "impl": impl, "model": model, "spec": spec}
            if model is not None and impl != model:
                viol.append(dict(replay, kind="implementation differs from the faithful model (%s -> %s)" % (S, T)))
                continue
            if spec is not None and impl != spec:
                k = classify(S, T, c, impl, spec)
                if k:
                    known.setdefault(k, []).append({"sql": replay["sql"][0], "impl": impl, "spec": spec})
                else:
                    viol.append(dict(replay, kind="cast deviates from the specification outside the known classes (%s -> %s)" % (S, T)))
            elif impl[0] == "panic":
                k = classify(S, T, c, impl, ("err",))
                if k:
                    known.setdefault(k, []).append({"sql": replay["sql"][0], "impl": impl})
                else:
                    viol.append(dict(replay, kind="cast panics (%s -> %s)" % (S, T)))
            elif model is None and spec is None and impl[0] not in ("ok", "err"):
                viol.append(dict(replay, kind="cast neither succeeds nor fails cleanly (%s -> %s)" % (S, T)))
        timing[S] = round(timing[S] + time.time(), 1)
        for T in sorted(seen_pairs):
            pairs.append("%s->%s" % (S, T))
        if observed and len(samples) < 6:
            T, c, impl, sql = observed[len(observed) // 2]
            samples.append({"sql": "select cast(%s as %s)" % (lit(S, c), gen.tinfo(T)[0]), "impl": impl, "model": exp[(T, c)][0], "spec": exp[(T, c)][1]})
    return {"values": nvals, "pairs": pairs, "nocast": nocast, "violations": viol, "known": known,
            "distinct": len(distinct), "samples": samples, "timing": timing}


# ---------------------------------------------------------------- round trips and composed casts through SQL
def stage_roundtrip_sql(ctx, rng, gverif):
    """(v::text)::T = v on the engine for every type with both directions; nested casts keep the inner failure."""
    tier = ctx["tier"]
    viol, known, n = [], {}, 0
    cases, meta = [], []
    for S in list(INTS) + list(FLOATS) + SRC_DECS:
        cells = cells_for(S, rng, tier)
        if S in INTS and INTS[S][1] <= 16:
            lo, hi = irange(S)
            sqlt = gen.tinfo(S)[0]
            stmts = ["create temp table t as select cast(a as %s) a from generate_series(%d, %d) g(a)" % (sqlt, lo, hi),
                     "select count(*) from t where cast(cast(a as text) as %s) = a" % sqlt,
                     "select a, cast(a as text) from t where not (cast(cast(a as text) as %s) = a) limit 5" % sqlt]
            cases.append({"id": "rt-" + S, "mode": "det", "partitions": 1, "timeout_s": 120, "stmts": stmts})
            meta.append(("count", S, hi - lo + 1))
        else:
            cols = [("rid", "i32"), ("a", S)]
            rows = [["I%d" % i, c] for i, c in enumerate(cells)]
            sqlt = gen.tinfo(S)[0]
            stmts = [gen.create_table("t", cols)] + gen.insert_rows("t", cols, rows, chunk=100) + \
                    ["select a, cast(a as text), cast(cast(a as text) as %s) from t" % sqlt]
            cases.append({"id": "rt-" + S, "mode": "det", "partitions": 1, "timeout_s": 120, "stmts": stmts})
            meta.append(("rows", S, len(cells)))
    # nested casts: the inner cast fails, the whole expression must fail
    nested = [("70000", "i32", "i16", "i64"), ("300", "i32", "i8", "i32"), ("-1", "i32", "u8", "i64"), ("40000", "i32", "i16", "i32"),
              ("3000000000", "i64", "i32", "i64"), ("-5", "i64", "u32", "i64"), ("256", "i16", "u8", "i16"), ("70000", "i32", "u16", "u32")]
    for v, S, M, T in nested:
        sql = "select cast(cast(cast('%s' as %s) as %s) as %s)" % (v, gen.tinfo(S)[0], gen.tinfo(M)[0], gen.tinfo(T)[0])
        cases.append({"id": "nest-%s-%s-%s-%s" % (v, S, M, T), "mode": "det", "partitions": 1, "timeout_s": 60, "stmts": [sql]})
        meta.append(("nested", (v, S, M, T), sql))
    out = common.run_harness(gverif, "sql", cases, timeout=900)
    for (knd, S, x), c, r in zip(meta, cases, out):
        res = r.get("results", [])
        if knd == "count":
            n += x
            ok = len(res) == 3 and res[1].get("ok") and res[1]["rows"] == [["I%d" % x]]
            if not ok:
                viol.append({"kind": "(v::text)::T = v fails", "type": S, "stmts": c["stmts"], "results": [y.get("rows", y) for y in res[1:]]})
        elif knd == "rows":
            last = res[-1] if res else {}
            if len(res) != len(c["stmts"]) or not last.get("ok"):
                viol.append({"kind": "(v::text)::T round trip statement failed", "type": S, "stmts": c["stmts"][-1:], "result": str(last)[:300]})
                continue
            for a, t, b in last["rows"]:
                n += 1
                if canon(S, a) != canon(S, b):
                    viol.append({"kind": "(v::text)::T = v fails", "type": S, "value": a, "text": t, "back": b,
                                 "sql": ["select cast(cast(%s as text) as %s)" % (gen.sql_lit(S, a), gen.tinfo(S)[0])]})
        else:
            n += 1
            last = res[-1] if res else {}
            if last.get("ok"):
                viol.append({"kind": "nested cast: the failing inner cast was dropped (CAST flattening)", "sql": [x], "result": last["rows"]})
            elif "err" not in last:
                viol.append({"kind": "nested cast neither fails nor succeeds cleanly", "sql": x, "result": str(last)[:300]})
    # interval text round trip (property level)
    ivals = ["2 months", "1 year", "1 day", "3 hours", "-1 day", "1 year 2 months 3 days"]
    ic = [{"id": "iv%d" % i, "mode": "det", "partitions": 1, "timeout_s": 60,
           "stmts": ["select cast('%s' as interval), cast(cast('%s' as interval) as text)" % (v, v)]} for i, v in enumerate(ivals)]
    o1 = common.run_harness(gverif, "sql", ic, timeout=300)
    ic2, keep = [], []
    for v, r in zip(ivals, o1):
        last = (r.get("results") or [{}])[-1]
        if last.get("ok"):
            iv, txt = last["rows"][0]
            if "'" not in txt:
                ic2.append({"id": "b" + v, "mode": "det", "partitions": 1, "timeout_s": 60, "stmts": ["select cast('%s' as interval)" % txt[1:]]})
                keep.append((v, iv, txt))
    o2 = common.run_harness(gverif, "sql", ic2, timeout=300) if ic2 else []
    for (v, iv, txt), r in zip(keep, o2):
        n += 1
        last = (r.get("results") or [{}])[-1]
        back = last["rows"][0][0] if last.get("ok") else None
        if back != iv:
            m_, d_, n_ = [int(z) for z in iv[1:].split("/")]
            if m_ % 12 != 0 or m_ < 0 or d_ < 0 or n_ != 0:
                known.setdefault("interval-text-roundtrip", []).append({"sql": "select cast(cast(cast('%s' as interval) as text) as interval)" % v,
                                                                        "text": txt[1:], "back": back or last.get("err")})
            else:
                viol.append({"kind": "interval text round trip fails outside the known class", "interval": v, "value": iv, "text": txt, "back": back})
    return {"values": n, "violations": viol, "known": known}


# ---------------------------------------------------------------- witnesses of the repaired defects
REGRESSIONS = [
    # (finding it was the witness of, statement, expected cell or None for an error)
    ("rescale-narrows-before-downscale (fixed 770f0ed44)",
     "select cast(cast('99999999999999.99999' as decimal(30,5)) as decimal(18,0))", "D100000000000000/18/0"),
    ("rescale-narrows-before-downscale (fixed 770f0ed44)",
     "select cast(cast('-100000000000000000.00001' as decimal(30,5)) as decimal(18,0))", "D-100000000000000000/18/0"),
    ("rescale-narrows-before-downscale (fixed 770f0ed44), result does not fit",
     "select cast(cast('12345678901234567890.5' as decimal(30,5)) as decimal(18,0))", None),
    ("rescale-factor-exceeds-target-primitive (fixed 770f0ed44)",
     "select cast(cast('1.5' as decimal(38,20)) as decimal(18,0))", "D2/18/0"),
    ("rescale-factor-exceeds-target-primitive (fixed 770f0ed44)",
     "select cast(cast('-0.5' as decimal(38,20)) as decimal(18,0))", "D-1/18/0"),
    ("rescale-factor-exceeds-target-primitive (fixed 770f0ed44)",
     "select cast(cast('0.49999999999999999999' as decimal(38,20)) as decimal(18,0))", "D0/18/0"),
    ("float-to-decimal product in the source float format (fixed 770f0ed44)",
     "select cast(cast('9.5' as float) as decimal(18,9))", "D9500000000/18/9"),
    ("float-to-decimal product in the source float format (fixed 770f0ed44)",
     "select cast(cast('0.1' as float) as decimal(18,9))", "D100000001/18/9"),
    ("round(decimal) goes through DecimalToDecimal<D, D> (touched by 770f0ed44)",
     "select round(cast('1.25' as decimal(5,2)), 1)", "D13/5/1"),
    ("round(decimal) goes through DecimalToDecimal<D, D> (touched by 770f0ed44)",
     "select round(cast('-12345678901234567890.5' as decimal(30,5)))", "D-12345678901234567891/30/0"),
]


def stage_regressions(ctx, gverif):
    """the witnesses of the repaired defects, in every run: the exact expected result, nothing else is accepted"""
    cases = [{"id": "reg%d" % i, "mode": "det", "partitions": 1, "timeout_s": 60, "stmts": [sql]} for i, (_, sql, _) in enumerate(REGRESSIONS)]
    out = common.run_harness(gverif, "sql", cases, timeout=600)
    viol = []
    for (what, sql, want), r in zip(REGRESSIONS, out):
        o = res_outcome((r.get("results") or [None])[-1])
        got = o[1][0][0] if o[0] == "rows" and len(o[1]) == 1 else None
        ok = (o[0] == "err") if want is None else (got == want)
        if not ok:
            viol.append({"kind": "a repaired defect is back: " + what, "sql": [sql], "expected": want or "an error", "result": o})
    return {"values": len(REGRESSIONS), "violations": viol}


# ---------------------------------------------------------------- driver
def run(ctx):
    t0 = time.time()
    rng = common.Rng(ctx["seed"])
    out = {"violations": [], "known": [], "assumptions": []}
    tb = tables_cast.regenerate()
    gverif, _ = common.build_harness()
    gcast, _ = common.build_harness(bin="gv_cast")
    pr = common.coq_props(PROPS)
    audit = [a for a in common.audit_sources() if re.search(r"(Cast|TextConv|Calendar|C13)", a)]
    obligations = pr["declared"]
    bad_assum = common.check_assumptions(pr) if pr["ok"] else []
    proof_broken = (not pr["ok"]) or bool(bad_assum) or bool(audit)
    discharged = 0 if proof_broken else len(obligations)
    gmodel = common.build_ocaml("cast")
    t1 = time.time()
    u = stage_units(ctx, rng, gcast, gmodel)
    t2 = time.time()
    s = stage_sql(ctx, rng, gverif, gmodel)
    t3 = time.time()
    r = stage_roundtrip_sql(ctx, rng, gverif)
    g = stage_regressions(ctx, gverif)
    t4 = time.time()
    for v in u["violations"] + s["violations"] + r["violations"] + g["violations"]:
        out["violations"].append({"what": v.get("kind", "violation"), "replay": v, "no_input": False})
    for m in u["mismatches"][:40]:
        out["violations"].append({"what": "real parser/formatter differs from the faithful model (model/TextConv.v)", "replay": m, "no_input": False})
    if proof_broken:
        out["violations"].append({"what": "theorem(s) in %s no longer check" % PROPS,
                                  "replay": {"failed_at": pr.get("failed_at"), "log_tail": pr["log"][-1500:] if not pr["ok"] else "",
                                             "assumption_problems": bad_assum, "audit": audit},
                                  "no_input": not (out["violations"])})
    listed = {k["id"]: k for k in common.known_findings()["known"] if k["property"] == PID}
    merged = {}
    for st in (u, s, r):
        for k, v in st["known"].items():
            merged.setdefault(k, []).extend(v)
    for k, v in sorted(merged.items()):
        if k in listed:
            ex = v[0]
            out["known"].append("%s: %s (%d case(s), e.g. %s)" % (k, listed[k]["what"], len(v), json.dumps(ex, default=str)[:220]))
        else:
            out["violations"].append({"what": "finding class %s is not listed in findings/C13.json" % k, "replay": {"cases": v[:5]}, "no_input": False})
    out["coverage"] = {
        "obligations": len(obligations), "discharged": discharged,
        "checker_cmd": "cd coq && make props/C13.vo (Print Assumptions parsed; Admitted/Axiom audit over the C13 files)",
        "trusted_base": ["Coq 8.16.1 kernel (vm_compute in the era checks of CalendarProofs and in closed witness lemmas)",
                         "extraction (ExtrOcamlBasic) + ocaml/cast.ml parsing/printing",
                         "harness/src/bin/gv_cast.rs and gverif sql",
                         "python-side specification of text->decimal, text->integer, float->decimal (exact rationals) in vlib/c13.py",
                         "Rust std float parsing/printing (not modelled; only the engine-level round trip is checked)",
                         "chrono 0.4.41 is modelled (NaiveDate::from_str, %Y-%m-%d, day numbering), tied by correspondence only",
                         "num_traits::checked_pow is modelled by its specification (Some(b^n) iff it fits); 10f64.powi(n) by compiler-rt's __powidf2 loop; both tied by correspondence (scales 0..37)",
                         "`<f64 as NumCast>::from(f32)` is modelled as the IEEE widening (round_float F64, proved exact); f16 sources are not modelled",
                         "vlib/tables_cast.py scanner: CastFlatten::Safe integer casts and the flattening condition in expr/cast_expr.rs"],
        "theorems": obligations,
        "evaluations": u["evaluations"] + s["values"] + r["values"] + g["values"],
        "distinct_nontrivial": s["distinct"] + u["cases"],
        "rule": "units: every item = one call of a real parser/formatter compared with the extracted model, plus parse(format v)=v on the real code; "
                "sql: every value = one (source value, target type) cast outcome compared with the extracted model and the specification; "
                "8/16-bit integer sources: every value predicted to succeed is checked (bulk), every failing value of the 8-bit sources and a "
                "boundary-biased sample of the failing 16-bit values is checked one statement per value; distinct = distinct (pair, outcome, value)",
        "samples": s["samples"][:4],
        "unit_items": u["evaluations"], "unit_roundtrips": u["roundtrips"], "days_formatted": u["days_formatted"],
        "sql_values": s["values"], "sql_pairs_with_cast": len(s["pairs"]), "sql_pairs": s["pairs"], "pairs_without_cast": s["nocast"],
        "sql_roundtrip_values": r["values"], "regression_witnesses": g["values"], "exhaustive": False,
        "source_constants": tb, "stage_seconds": {"build+proofs": round(t1 - t0, 1), "units": round(t2 - t1, 1), "sql": round(t3 - t2, 1), "roundtrip": round(t4 - t3, 1)},
    }
    out["assumptions"] = ["float <-> text is Rust std (not modelled); float values reach tables through text parsing and are read back before use",
                          "try_cast has no SQL syntax in this tree (PlannedCastFunction::call_try_cast is never called); only CAST (error) is exercised",
                          "bool -> text and date -> text have no cast function; their formatters are checked through gv_cast only",
                          "panics are observed with overflow checks on (harness profile); the model's oc=false branch describes the wrapping release build and is not run against the engine",
                          "non-ASCII white space around date fields (chrono trims Unicode White_Space) is not modelled"]
    out["wall"] = time.time() - t0
    return out
