"""C05 — Scalar operators and functions follow their definition on all values (3VL, comparisons, integer
arithmetic in range, CASE, IN lists; every evaluation context)."""
from . import sqlprop, sqlgen

PID = "C05"


def make_work(rng, tier):
    n = 300 if tier == "quick" else 3000
    work = []
    for i in range(n):
        tables = sqlgen.make_db(rng, max_rows=rng.choice([12, 30]))
        # expression-heavy blocks: deep expressions, few relational features
        g = sqlgen.Gen(rng, tables, {"max_depth": 4, "groups": False, "setops": False, "ctes": False,
                                     "subqueries": rng.chance(25), "order": rng.chance(30),
                                     "sugar_chance": 25})
        runs = []
        for _ in range(4):
            q = g.query()
            # contexts: the generator places expressions in SELECT lists, WHERE, CASE branches and JOIN ON;
            # optimizer on = const folding + CSE + selection reordering, off = plain evaluation
            runs.append((q, {"partitions": rng.choice([1, 3]), "enable_optimizer": bool(rng.below(2)),
                             "batch_size": rng.choice([1, 3, 2048])}))
        work.append({"id": "c05-%d" % i, "tables": tables, "runs": runs, "mode": "det", "det_partitions": 2,
                     "sched": {"kind": "fifo", "seed": 1}})
    return work


def run(ctx):
    from . import c05num, common
    res = run_sql(ctx)
    # integer/decimal numeric and bitwise scalar functions (model/NumFn.v, props/C05num.v)
    return common.merge_results(res, c05num.run(ctx), "numeric_bitwise_functions")


def run_sql(ctx):
    return sqlprop.run_property(
        ctx, PID, "props/C05.v", make_work,
        "and3/or3/not3 are exactly the Kleene tables for all values (type error iff an operand is neither boolean nor NULL); commutativity, associativity, De Morgan, distributivity, dominance; WHERE keeps exactly the rows whose predicate is TRUE; IN lists equal their OR chain; CASE takes the first TRUE branch and never evaluates later ones; closed expressions evaluate independently of the environment (constant folding)",
        "expression-heavy queries (depth <= 4: comparisons, AND/OR/NOT, IS [NOT] NULL, IS [NOT] DISTINCT FROM, + - * / %, unary minus, CASE, IN lists) in SELECT lists, WHERE clauses, CASE branches and JOIN conditions, over columns with NULLs and over constants only, optimizer on (constant folding, CSE, conjunct reordering) and off, batch sizes 1/3/2048; distinct = distinct (SQL text, config)")


def replay(ctx, payload):
    from . import sqlrun
    return sqlrun.replay(ctx, payload)
