"""C16 — No query makes the engine's unsafe code touch memory it does not own (PARTIAL: the Coq-decidable
part — bounds and alignment of the modelled address arithmetic).

Stages: tables (string-view threshold constants, row-index width from the source) -> proofs (props/C16.v) ->
correspondence: `gv_layout` (the REAL RowLayout::try_new / AggregateLayout::try_new / SortLayout::try_new /
RowBlocks::prepare_append / StringView / directory helpers) against the extracted model/Layout.v on random type
lists (0..40 columns over every physical type, many varlen columns), aggregate lists, append sequences — exact
equality of every offset / width / pointer."""
import json, re, time
from . import common, tables_layout

PID = "C16"
PROPS = "props/C16.v"

# harness type -> physical type of the model (DataType::physical_type())
PHYS = {"null": "null", "bool": "bool", "i8": "i8", "i16": "i16", "i32": "i32", "i64": "i64", "i128": "i128",
        "u8": "u8", "u16": "u16", "u32": "u32", "u64": "u64", "u128": "u128", "f16": "f16", "f32": "f32", "f64": "f64",
        "utf8": "utf8", "binary": "binary", "date32": "i32", "date64": "i64", "timestamp": "i64", "interval": "interval",
        "dec64(10,2)": "i64", "dec64(18,9)": "i64", "dec128(30,5)": "i128", "dec128(38,0)": "i128", "list_i32": "list"}
ROW_TYPES = list(PHYS)
SORT_TYPES = [t for t in ROW_TYPES]
AGG_POOL = [("sum", ["i8"]), ("sum", ["i16"]), ("sum", ["i32"]), ("sum", ["i64"]), ("sum", ["f64"]), ("sum", ["dec64(10,2)"]),
            ("sum", ["dec128(30,5)"]), ("avg", ["i64"]), ("avg", ["f64"]), ("avg", ["dec64(10,2)"]), ("avg", ["dec128(30,5)"]),
            ("count", ["i32"]), ("count", ["utf8"]), ("first", ["i32"]), ("first", ["utf8"]), ("first", ["f64"]),
            ("bool_and", ["bool"]), ("bool_or", ["bool"]), ("bit_and", ["i8"]), ("bit_and", ["i64"]), ("bit_or", ["u16"]), ("bit_or", ["u64"]),
            ("stddev_pop", ["f64"]), ("stddev_samp", ["f64"]), ("var_pop", ["f64"]), ("var_samp", ["f64"]),
            ("covar_pop", ["f64", "f64"]), ("covar_samp", ["f64", "f64"]), ("corr", ["f64", "f64"]), ("regr_count", ["f64", "f64"]),
            ("regr_avgx", ["f64", "f64"]), ("regr_avgy", ["f64", "f64"]), ("regr_r2", ["f64", "f64"]), ("regr_slope", ["f64", "f64"]),
            ("approx_count_distinct", ["i32"]), ("approx_count_distinct", ["utf8"])] + \
           [(f, [t]) for f in ("min", "max") for t in ("bool", "i8", "i16", "i32", "i64", "i128", "u8", "u16", "u32", "u64", "u128", "f16", "f32",
                                                        "f64", "dec64(10,2)", "dec128(30,5)", "date32", "date64", "timestamp", "interval", "utf8", "binary")]


PRED_KEYS = [p + s for p in ("array_push_inline", "sv_is_inline", "sv_is_reference", "sv_new_inline_assert", "sv_new_reference_assert",
                              "sp_is_inline", "sp_is_reference", "sp_new_inline_assert", "sp_new_reference_assert") for s in ("_op", "_rhs")]


def rand_types(rng, pool, lo, hi):
    n = lo + rng.below(hi - lo + 1)
    mode = rng.below(4)
    out = []
    for _ in range(n):
        if mode == 0 and rng.chance(70):
            out.append(rng.choice(["utf8", "binary"]))          # many varlen columns
        elif mode == 1 and rng.chance(50):
            out.append(rng.choice(["null", "bool", "i8", "u8", "list_i32"]))   # narrow / zero-width columns
        else:
            out.append(rng.choice(pool))
    return out


def ptys(ts):
    return ",".join(PHYS[t] for t in ts) if ts else "-"


def csv(xs):
    return ",".join(str(x) for x in xs)


def stage(ctx, rng, glayout, gmodel, tb):
    quick = ctx["tier"] == "quick"
    cases, lines, kinds = [], [], []

    def add(case, line, kind):
        case["id"] = "c%d" % len(cases)
        cases.append(case)
        lines.append(line)
        kinds.append(kind)

    # row layouts: every prefix size 0..40 once, then random lists
    for n in range(0, 41):
        ts = [rng.choice(ROW_TYPES) for _ in range(n)]
        add({"op": "row", "types": ts}, "row " + ptys(ts), "row")
    for t in ROW_TYPES:
        add({"op": "row", "types": [t]}, "row " + ptys([t]), "row")
    for _ in range(500 if quick else 20000):
        ts = rand_types(rng, ROW_TYPES, 1, 40)
        add({"op": "row", "types": ts}, "row " + ptys(ts), "row")
    # sort layouts (a LIST / STRUCT key is an error on both sides, never a panic)
    for t in SORT_TYPES:
        add({"op": "sort", "types": [t]}, "sort " + ptys([t]), "sort")
    add({"op": "sort", "types": []}, "sort -", "sort")
    for _ in range(400 if quick else 10000):
        ts = rand_types(rng, [t for t in SORT_TYPES if t != "list_i32" or rng.chance(3)], 1, 40)
        add({"op": "sort", "types": ts}, "sort " + ptys(ts), "sort")
    # block appends
    for rw, rc, apps in [(5, 4, [3, 0, 2, 9]), (1, 1, [1, 1, 1]), (8, 16, [16]), (8, 16, [17]), (8, 16, [0]), (0, 4, [0]), (0, 4, [3]), (110, 2048, [5000])]:
        add({"op": "append", "row_width": rw, "row_capacity": rc, "appends": apps}, "append %d %d %s" % (rw, rc, " ".join(str(a) for a in apps)), "append")
    for _ in range(300 if quick else 5000):
        rw = 1 + rng.below(rng.choice([4, 16, 64, 300]))
        rc = 1 + rng.below(rng.choice([2, 8, 32, 64]))
        apps = [rng.choice([0, 1, rc - 1, rc, rc + 1, 2 * rc, 3 * rc + 1, rng.below(4 * rc + 1)]) for _ in range(1 + rng.below(6))]
        add({"op": "append", "row_width": rw, "row_capacity": rc, "appends": apps}, "append %d %d %s" % (rw, rc, " ".join(str(a) for a in apps)), "append")
    # string views
    lens = list(range(0, 41)) + [rng.below(100000) for _ in range(60)]
    mx, lit = tb.get("max_inline_len"), tb.get("is_inline_literal")
    add({"op": "strview", "lens": lens}, "strview %s %s %s" % (mx if mx is not None else 12, lit if lit is not None else 12, " ".join(str(x) for x in lens)), "strview")
    # directory masks
    for k in list(range(0, 21)) + [31, 32, 40, 63]:
        hs = [0, 1, (1 << k) - 1, 1 << k, (1 << 64) - 1] + [rng.next() for _ in range(20)]
        add({"op": "mask", "cap": 1 << k, "hashes": hs}, "mask %d %s" % (1 << k, " ".join(str(h) for h in hs)), "mask")
    # the REAL inline / reference predicates of StringView and StringPtr, every length 0..40 (and some long ones)
    plens = list(range(0, 41)) + [64, 255, 256, 4096, 70000]
    add({"op": "strpred", "lens": plens}, "strpred " + " ".join(str(x) for x in plens), "strpred2")
    # the REAL compute_heap_sizes: validity masks x array selections x NON-IDENTITY row selections x lengths around 12
    LEN_POOL = [0, 1, 11, 12, 12, 13, 13, 14, 20, 40, 100]
    for _ in range(400 if quick else 20000):
        narr = 1 + rng.below(3)
        nvals = 1 + rng.below(24)
        arrs, mlines, nlog = [], [], None
        use_sel = rng.chance(40)
        nlogical = nvals if not use_sel else 1 + rng.below(24)
        for _a in range(narr):
            vals = [None if rng.chance(30) else rng.choice(LEN_POOL) for _ in range(nvals)]
            sel = [rng.below(nvals) for _ in range(nlogical)] if use_sel else None
            arrs.append({"values": vals, "select": sel})
            eff = sel if sel is not None else list(range(nvals))
            mlines.append("%s;%s;%s" % ("".join("1" if vals[i] is not None else "0" for i in eff), ",".join(str(i) for i in eff),
                                        ",".join(str(v or 0) for v in vals)))
        mode = rng.below(4)
        if mode == 0:
            rows = list(range(nlogical))                                  # identity
        elif mode == 1:
            rows = sorted(set(rng.below(nlogical) for _ in range(1 + rng.below(nlogical))))   # ascending subset (new groups)
        elif mode == 2:
            rows = rng.shuffle(list(range(nlogical)))[:1 + rng.below(nlogical)]
        else:
            rows = [rng.below(nlogical) for _ in range(1 + rng.below(2 * nlogical))]          # with repeats
        add({"op": "heapsizes", "arrays": arrs, "rows": rows}, "heapsizes %s %s" % (",".join(str(r) for r in rows) or "-", " ".join(mlines)), "heapsizes")
    # the seeded-bug shape: ascending subset selection, a NULL at the batch index equal to a long key's ordinal
    add({"op": "heapsizes", "arrays": [{"values": [20, None, 30, 13, None, 40], "select": None}], "rows": [2, 3, 5]},
        "heapsizes 2,3,5 101101;0,1,2,3,4,5;20,0,30,13,0,40", "heapsizes")
    # aggregate layouts: real (size, align) of the states feed the model
    agg_cases = []
    for _ in range(300 if quick else 8000):
        groups = rand_types(rng, [t for t in ROW_TYPES if t != "list_i32"], 0, 12) if rng.chance(85) else []
        aggs = [rng.choice(AGG_POOL) for _ in range(rng.below(9))]
        agg_cases.append({"id": "a%d" % len(agg_cases), "op": "agg", "groups": groups, "aggs": [[n, a] for n, a in aggs]})
    for n, a in AGG_POOL:
        agg_cases.append({"id": "a%d" % len(agg_cases), "op": "agg", "groups": ["i32"], "aggs": [[n, a]]})
    real = common.run_harness(glayout, [], cases + agg_cases, timeout=600)
    real_main, real_agg = real[:len(cases)], real[len(cases):]
    agg_lines, agg_keep = [], []
    agg_bind_err = 0
    for c, r in zip(agg_cases, real_agg):
        if "states" in r:
            agg_lines.append("agg %s %s" % (ptys(c["groups"]), ",".join("%d:%d" % (s, a) for s, a in r["states"]) or "-"))
            agg_keep.append((c, r))
        elif "err" in r:
            agg_bind_err += 1
        else:
            agg_keep.append((c, r))
            agg_lines.append("agg %s -" % ptys(c["groups"]))
    # model-side predictions that depend on a scanned constant are made only when that constant was found
    preds_ok = all(tb.get(k) is not None for k in PRED_KEYS)
    needs_preds = ("strpred2", "heapsizes")
    send_idx = [i for i, k in enumerate(kinds) if preds_ok or k not in needs_preds]
    mres = common.run_model(gmodel, "x", [lines[i] for i in send_idx] + agg_lines, timeout=600)
    mmain = [None] * len(cases)
    for i, o in zip(send_idx, mres[:len(send_idx)]):
        mmain[i] = None if o == "nopreds" else o
    mout = mmain + mres[len(send_idx):]
    mism, n, distinct = [], 0, set()
    max_inline_real = 12
    for r in real_main:
        if "flags" in r:
            max_inline_real = r.get("max_inline_len", 12)
    counts = {}
    aligns = set()
    for c, k, r, m in zip(cases, kinds, real_main, mout[:len(cases)]):
        n += 1
        counts[k] = counts.get(k, 0) + 1
        want = None
        if "panic" in r or "abort" in r:
            want = "panic" if k != "append" else "fail"
        elif "err" in r:
            want = "err"
        elif k == "row":
            want = "offsets=%s row_width=%d validity=%d heap=%d bo3=%s" % (csv(r["offsets"]), r["row_width"], r["validity_width"], 1 if r["requires_heap"] else 0, csv(r["byte_offset_r3"]))
            if r["buffer_size_7"] != 7 * r["row_width"] or r["num_columns"] != len(c["types"]):
                mism.append({"case": c, "real": r, "what": "buffer_size / num_columns"})
        elif k == "sort":
            want = "offsets=%s widths=%s compare=%d width=%d heap=%s heaprow=%d" % (
                csv(r["offsets"]), csv(r["widths"]), r["compare_width"], r["row_width"],
                ",".join("-" if x is None else str(x) for x in r["heap_mapping"]), r["heap_row_width"])
            if r["row_index_width"] != tb.get("row_index_width"):
                mism.append({"case": c, "real": r, "what": "ROW_INDEX_WIDTH differs from the scanned constant"})
        elif k == "append":
            want = "ptrs=%s blocks=%s" % ("|".join(",".join("%d:%d" % (b, o) for b, o in ps) for ps in r["pointers"]),
                                          ",".join("%d:%d" % (cp, rs) for cp, rs in r["blocks"]))
        elif k == "strview":
            want = ",".join("1" if x else "0" for x in r["inline"])
            if r["max_inline_len"] != tb.get("max_inline_len") or r["string_ptr_size"] != 16:
                mism.append({"case": "strview", "real": {k2: v for k2, v in r.items() if k2 != "inline"}, "what": "MAX_INLINE_LEN / size_of::<StringPtr>() differ from the model's constants"})
        elif k == "mask":
            want = "offs=%s next=%s" % (csv(r["offsets"]), csv(r["next"]))
        elif k == "strpred2":
            # real flags == the predicates scanned from the source, and the modelled round trip is safe for every length
            want = " ".join(f + ("i" if f[0] == "1" else "r") + "s" for f in r["flags"])
        elif k == "heapsizes":
            sz = r["sizes"]
            offs, tot = [], 0
            for x in sz:
                offs.append(tot)
                tot += x
            want = "sizes=%s offsets=%s total=%d" % (csv(sz), csv(offs), tot)
        # implementation-side rules that need no model: they hold on the real code or the concrete input is reported
        if k == "strpred2" and "flags" in r:
            for ln, f in zip(c["lens"], r["flags"]):
                if "p" in f:
                    mism.append({"what": "a StringView/StringPtr constructor assertion fires for a value of %d bytes" % ln, "len": ln, "flags": f})
                elif f[0] != f[2] or f[1] == f[0] or f[3] == f[2] or (f[0] == "1") != (ln <= max_inline_real):
                    mism.append({"what": "a string of exactly %d bytes: StringView (array reader, ROW WRITER) says inline=%s, StringPtr (ROW READER, as_bytes) says inline=%s, "
                                         "MAX_INLINE_LEN=%d - a value written inline is read back as a pointer (or the reverse)" % (ln, f[0], f[2], max_inline_real),
                                 "len": ln, "flags_sv_inline_sv_ref_sp_inline_sp_ref": f, "case": {"op": "strpred", "lens": [ln]}})
                    break
        if k == "heapsizes" and "sizes" in r:
            spec = []
            for row in c["rows"]:
                tot = 0
                for a in c["arrays"]:
                    v = a["values"][a["select"][row]] if a["select"] is not None else a["values"][row]
                    if v is not None and v > max_inline_real:
                        tot += v
                spec.append(tot)
            if r["sizes"] != spec:
                i_bad = [i for i, (x, y) in enumerate(zip(r["sizes"], spec)) if x != y][0]
                mism.append({"what": "compute_heap_sizes: output row %d (selected row %d) gets heap size %d, the non-inline valid strings of that row need %d bytes"
                                     % (i_bad, c["rows"][i_bad], r["sizes"][i_bad], spec[i_bad]),
                             "case": {k2: v for k2, v in c.items() if k2 != "id"}, "real_sizes": r["sizes"], "needed": spec})
        if m is None:
            continue        # no model prediction (a scanned constant is missing): the rules above and the search stages decide
        if want != m:
            mism.append({"case": {k2: v for k2, v in c.items() if k2 != "id"}, "real": want, "model": m})
        distinct.add((k, m[:60]))
    for (c, r), m in zip(agg_keep, mout[len(cases):]):
        n += 1
        counts["agg"] = counts.get("agg", 0) + 1
        if "states" in r:
            want = "base=%d width=%d offsets=%s group=%d" % (r["base_align"], r["row_width"], csv(r["offsets"]), r["group_width"])
            for s, a in r["states"]:
                aligns.add(a)
                if a == 0 or a & (a - 1):
                    mism.append({"case": c, "what": "an aggregate state alignment is not a power of two (hypothesis of agg_state_aligned)", "states": r["states"]})
        else:
            want = "panic"
        if want != m:
            mism.append({"case": {k2: v for k2, v in c.items() if k2 != "id"}, "real": want, "model": m, "states": r.get("states")})
        distinct.add(("agg", m[:60]))
    sample = {"types": cases[60]["types"], "real": {k2: v for k2, v in real_main[60].items() if k2 in ("offsets", "row_width", "validity_width")}, "model": mout[60]}
    missing = [k for k in PRED_KEYS + ["max_inline_len", "inline_buffer_len", "row_index_width", "heap_sizes_validity_by_selected_row", "row_writer_uses_view_is_inline"] if tb.get(k) is None]
    return {"n": n, "mismatches": mism, "distinct": len(distinct), "counts": counts, "agg_bind_errors": agg_bind_err,
            "state_alignments_seen": sorted(aligns), "sample": sample, "missing_constants": missing, "model_predictions_skipped": len(cases) - len(send_idx)}


def stage_rowtrip(ctx, rng, glayout):
    """strings of every length around the inline threshold through a REAL RowCollection (append twice, scan back):
    what comes back is what went in.  A crash of the harness process is reported as an abort."""
    quick = ctx["tier"] == "quick"
    cases = [{"id": "t0", "op": "rowtrip", "cols": [list(range(0, 41))], "block_capacity": 16},
             {"id": "t1", "op": "rowtrip", "cols": [[12] * 20, [11, 12, 13, None] * 5], "block_capacity": 3}]
    for i in range(120 if quick else 4000):
        n = 1 + rng.below(40)
        cols = [[None if rng.chance(20) else rng.choice([0, 1, 4, 11, 12, 12, 12, 13, 13, 14, 24, 100, 300]) for _ in range(n)] for _ in range(1 + rng.below(3))]
        cases.append({"id": "t%d" % (i + 2), "op": "rowtrip", "cols": cols, "block_capacity": rng.choice([1, 2, 3, 7, 16, 64])})
    res = common.run_harness(glayout, [], cases, timeout=600)
    bad, n = [], 0
    for c, r in zip(cases, res):
        n += sum(len(x) for x in c["cols"])
        if "cols" not in r:
            bad.append({"what": "RowCollection round trip of strings around the inline threshold crashed / failed", "case": {k: v for k, v in c.items() if k != "id"}, "result": str(r)[:400]})
            continue
        want = [x + x for x in r["sent"]]
        if r["cols"] != want:
            col = [i for i, (a, b) in enumerate(zip(r["cols"], want)) if a != b][0]
            row = [i for i, (a, b) in enumerate(zip(r["cols"][col], want[col])) if a != b]
            bad.append({"what": "a string written to a row block is read back differently", "case": {k: v for k, v in c.items() if k != "id"},
                        "column": col, "first_row": row[:1], "sent": want[col][row[0]] if row else None, "got": r["cols"][col][row[0]] if row else None})
    return {"n": n, "bad": bad, "cases": len(cases)}


MB12 = ["éééééé", "日本語日", "ab日本語x", "😀😀😀", "ñandúñandú"[:0] + "ññññññ"]        # exactly 12 bytes of UTF-8
MB_OTHER = ["ééééé1", "日本語日x", "😀😀😀a", "éééééé1"]                                  # 11 and 13 bytes


def sql_lit(x):
    return "null" if x is None else "'" + x.replace("'", "''") + "'"


def stage_strings_sql(ctx, rng, gverif):
    """C16-a at the query level: strings of 11, 12, 13 bytes (ASCII and multi-byte) as GROUP BY keys, hash join
    keys, ORDER BY keys and payloads, DISTINCT; partitions 1 and 4.
    C16-b: GROUP BY on a nullable long-string column where most rows hit existing groups, NULLs interleaved,
    batch sizes 2..64.  Results are compared with the answers computed here."""
    quick = ctx["tier"] == "quick"
    keys = ["a" * 11, "b" * 12, "c" * 13, "abcdefghijkl", "abcdefghijk", "abcdefghijklm", "zzzzzzzzzzzz", "", "x"] + MB12 + MB_OTHER
    for k in keys:
        assert k in MB_OTHER or k not in MB12 or len(k.encode()) == 12
    rows = []
    for i, k in enumerate(keys):
        for j in range(3):
            rows.append((k, i * 10 + j, keys[(i + j) % len(keys)]))
    rows += [(None, 900, "b" * 12), (None, 901, None), ("b" * 12, 902, None)]
    rows = rng.shuffle(rows)
    setup = ["create temp table s (k text, v int, p text)",
             "insert into s values " + ", ".join("(%s, %d, %s)" % (sql_lit(k), v, sql_lit(p)) for k, v, p in rows),
             "create temp table s2 (k text, w int)",
             "insert into s2 values " + ", ".join("(%s, %d)" % (sql_lit(k), i) for i, k in enumerate(keys + [None, "nomatch12byt"]))]

    def cell(x):
        return "N" if x is None else "S" + x

    def bkey(x):
        return (1, b"") if x is None else (0, x.encode())

    exp = {}
    grp = {}
    for k, v, p in rows:
        g = grp.setdefault(k, [0, 0, None])
        g[0] += 1
        g[1] += v
        if p is not None and (g[2] is None or p.encode() < g[2].encode()):
            g[2] = p
    exp["select k, count(*), sum(v), min(p) from s group by k"] = ("bag", [[cell(k), "I%d" % c, "I%d" % sm, cell(mp)] for k, (c, sm, mp) in grp.items()])
    exp["select distinct k from s"] = ("bag", [[cell(k)] for k in grp])
    exp["select distinct p, k from s"] = ("bag", [[cell(p), cell(k)] for p, k in set((p, k) for k, _, p in rows)])
    w_of = {k: i for i, k in enumerate(keys)}
    exp["select a.k, a.v, a.p, b.w from s a join s2 b on a.k = b.k"] = ("bag", [[cell(k), "I%d" % v, cell(p), "I%d" % w_of[k]] for k, v, p in rows if k is not None])
    exp["select b.k, count(*) from s2 b join s a on a.p = b.k group by b.k"] = ("bag", [[cell(k), "I%d" % sum(1 for _, _, p in rows if p == k)] for k in keys if any(p == k for _, _, p in rows)])
    srt = sorted(rows, key=lambda r: (bkey(r[0]), r[1]))
    exp["select k, p, v from s order by k, v"] = ("list", [[cell(k), cell(p), "I%d" % v] for k, v, p in srt])
    srt2 = sorted(rows, key=lambda r: r[1])
    exp["select p, k from s order by v"] = ("list", [[cell(p), cell(k)] for k, v, p in srt2])
    srt3 = sorted(rows, key=lambda r: (bkey(r[2]), r[1]), reverse=False)
    exp["select p, v from s order by p, v limit 17"] = ("list", [[cell(p), "I%d" % v] for k, v, p in srt3][:17])
    nn = [k for k, _, _ in rows if k is not None]
    exp["select min(k), max(k), count(k) from s"] = ("bag", [[cell(min(nn, key=lambda x: x.encode())), cell(max(nn, key=lambda x: x.encode())), "I%d" % len(nn)]])
    queries = list(exp)
    cases = []
    for parts in (1, 4):
        for bs in ((2048, 5) if quick else (2048, 5, 2, 16)):
            cases.append({"id": "a-%d-%d" % (parts, bs), "mode": "threaded", "threads": parts, "timeout_s": 60,
                          "stmts": setup + ["set partitions to %d" % parts, "set batch_size to %d" % bs] + queries})
    # ---- C16-b
    pool = ["key-%02d-" % i + "y" * (6 + (i * 7) % 30) for i in range(48)]     # 13..42 bytes, all non-inline
    gcases = []
    nb = 0
    for bs in ((2, 3, 4, 8, 16, 64) if quick else (2, 3, 4, 5, 7, 8, 16, 32, 64)):
        for rep in range(2 if quick else 6):
            n = 300
            grows, seen = [], []
            for i in range(n):
                r = rng.below(100)
                if r < 27:
                    grows.append(None)
                elif seen and r < 78:
                    grows.append(rng.choice(seen))          # an existing group
                else:
                    k = rng.choice(pool)
                    grows.append(k)
                    if k not in seen:
                        seen.append(k)
            cnt = {}
            for k in grows:
                cnt[k] = cnt.get(k, 0) + 1
            want = sorted([cell(k), "I%d" % c, ("I%d" % len(k)) if k is not None else "N"] for k, c in cnt.items())
            for parts in (1, 4):
                nb += 1
                gcases.append(({"id": "b-%d-%d-%d" % (bs, rep, parts), "mode": "threaded", "threads": parts, "timeout_s": 60,
                                "stmts": ["create temp table g (k text, v int)",
                                          "insert into g values " + ", ".join("(%s, %d)" % (sql_lit(k), i) for i, k in enumerate(grows)),
                                          "set partitions to %d" % parts, "set batch_size to %d" % bs,
                                          "select k, count(*), max(length(k)) from g group by k"]}, want))
    res = common.run_harness(gverif, "sql", cases + [c for c, _ in gcases], timeout=1200)
    bad, nq = [], 0
    for c, r in zip(cases, res[:len(cases)]):
        rs = r.get("results")
        if rs is None or len(rs) < len(c["stmts"]):
            last = (rs or [{}])[-1] if rs else {}
            bad.append({"what": "engine died / stopped on strings around the inline threshold (%s)" % c["id"], "stmts": c["stmts"][:len(setup) + 2] + [queries[min(max(len(rs or []) - len(setup) - 2, 0), len(queries) - 1)]],
                        "result": str({k: v for k, v in r.items() if k != "results"})[:300] + str(last)[:300]})
            continue
        for q, out in zip(queries, rs[len(setup) + 2:]):
            nq += 1
            kind, want = exp[q]
            if not out.get("ok"):
                bad.append({"what": "query over strings around the inline threshold fails", "sql": q, "stmts": c["stmts"][:len(setup) + 2] + [q], "result": str(out)[:300]})
                continue
            got = out["rows"]
            ok = (got == want) if kind == "list" else (sorted(got) == sorted(want))
            if not ok:
                diff = [x for x in got if x not in want][:3]
                bad.append({"what": "wrong answer over strings of 11/12/13 bytes (row format inline threshold)", "sql": q, "config": c["id"],
                            "stmts": c["stmts"][:len(setup) + 2] + [q], "unexpected_rows": diff, "got_rows": len(got), "want_rows": len(want)})
    for (c, want), r in zip(gcases, res[len(cases):]):
        nq += 1
        rs = r.get("results")
        last = rs[-1] if rs else {}
        if rs is None or len(rs) < len(c["stmts"]) or not last.get("ok"):
            bad.append({"what": "GROUP BY on a nullable long-string key: engine died / failed (heap sizes)", "stmts": c["stmts"], "result": (str({k: v for k, v in r.items() if k != "results"}) + str(last))[:400]})
            continue
        got = sorted(last["rows"])
        if got != want:
            bad.append({"what": "GROUP BY on a nullable long-string key gives wrong groups (heap sizes of newly appended group keys)", "stmts": c["stmts"],
                        "config": c["id"], "unexpected_rows": [x for x in got if x not in want][:3], "missing_rows": [x for x in want if x not in got][:3]})
    return {"n": nq, "bad": bad, "cases_a": len(cases), "cases_b": len(gcases)}


def stage_ungrouped_distinct_sql(ctx, rng, gverif):
    """ungrouped aggregates mixing DISTINCT and non-DISTINCT aggregates, including heap-owning states (max/min/first
    over long text, string_agg): every aggregate state is combined into the global state exactly once and dropped
    exactly once - a state merged twice doubles sums / counts / string_agg, a state dropped twice is a double free
    (abort).  Exact expected values; partitions 1 and 4; several batch sizes."""
    quick = ctx["tier"] == "quick"
    n = 60
    pool_s = ["alpha-long-string-value-%02d" % i for i in range(7)] + ["b", "cc", "exactly12byt"]
    rows = []
    for i in range(n):
        a = None if rng.chance(12) else rng.below(9)
        b = None if rng.chance(12) else rng.below(1000) - 300
        t = None if rng.chance(15) else rng.choice(pool_s)
        rows.append((a, b, t))
    setup = ["create temp table u (a int, b int, s text)",
             "insert into u values " + ", ".join("(%s, %s, %s)" % ("null" if a is None else a, "null" if b is None else b, sql_lit(t)) for a, b, t in rows)]
    A = [a for a, _, _ in rows if a is not None]
    B = [b for _, b, _ in rows if b is not None]
    T = [t for _, _, t in rows if t is not None]

    def I(x):
        return "N" if x is None else "I%d" % x

    def S(x):
        return "N" if x is None else "S" + x

    mx, mn = max(T, key=lambda x: x.encode()), min(T, key=lambda x: x.encode())
    # (sql, [per-column expectation]): a cell string, or ("bag", sep, items) for string_agg, or ("member", set) for first()
    qs = [
        ("select count(distinct a), sum(b), count(*) from u", [I(len(set(A))), I(sum(B)), I(n)]),
        ("select count(distinct a), sum(b), count(b), min(b), max(b) from u", [I(len(set(A))), I(sum(B)), I(len(B)), I(min(B)), I(max(B))]),
        ("select sum(distinct a), count(*), count(a), sum(a) from u", [I(sum(set(A))), I(n), I(len(A)), I(sum(A))]),
        ("select count(distinct a), max(s), min(s), count(s) from u", [I(len(set(A))), S(mx), S(mn), I(len(T))]),
        ("select count(distinct s), max(s), sum(b), min(s) from u", [I(len(set(T))), S(mx), I(sum(B)), S(mn)]),
        ("select count(distinct a), first(s), sum(b) from u", [I(len(set(A))), ("member", set(S(t) for _, _, t in rows)), I(sum(B))]),
        ("select count(distinct a), string_agg(s, ','), sum(b), count(*) from u", [I(len(set(A))), ("bag", ",", sorted(T)), I(sum(B)), I(n)]),
        ("select string_agg(distinct s, '|'), string_agg(s, '|'), count(distinct b) from u", [("bag", "|", sorted(set(T))), ("bag", "|", sorted(T)), I(len(set(B)))]),
        ("select count(distinct a), count(distinct b), count(distinct s), sum(b), max(s), count(*) from u",
         [I(len(set(A))), I(len(set(B))), I(len(set(T))), I(sum(B)), S(mx), I(n)]),
        ("select max(s), count(distinct a) from u where a < 4", [S(max([t for a, _, t in rows if a is not None and a < 4 and t is not None], key=lambda x: x.encode(), default=None)),
                                                               I(len(set(a for a in A if a < 4)))]),
        ("select count(distinct a), sum(b), max(s), string_agg(s, ',') from u where false", [I(0), "N", "N", "N"]),
    ]
    cases = []
    for parts in (1, 4):
        for bs in ((2048, 7) if quick else (2048, 7, 2, 16)):
            cases.append({"id": "u-%d-%d" % (parts, bs), "mode": "threaded", "threads": parts, "timeout_s": 60,
                          "stmts": setup + ["set partitions to %d" % parts, "set batch_size to %d" % bs] + [q for q, _ in qs]})
    res = common.run_harness(gverif, "sql", cases, timeout=600)
    bad, nq = [], 0
    for c, r in zip(cases, res):
        rs = r.get("results")
        if rs is None or len(rs) < len(c["stmts"]):
            k = max(len(rs or []) - len(setup) - 2, 0)
            bad.append({"what": "engine died in an ungrouped aggregate mixing DISTINCT and non-DISTINCT aggregates (an aggregate state combined / dropped twice)",
                        "config": c["id"], "stmts": c["stmts"][:len(setup) + 2] + [qs[min(k, len(qs) - 1)][0]],
                        "result": (str({k2: v for k2, v in r.items() if k2 != "results"}) + str((rs or [{}])[-1]))[:400]})
            continue
        for (q, want), out in zip(qs, rs[len(setup) + 2:]):
            nq += 1
            if not out.get("ok") or len(out["rows"]) != 1:
                bad.append({"what": "ungrouped aggregate mixing DISTINCT and non-DISTINCT aggregates fails", "sql": q, "config": c["id"], "stmts": c["stmts"][:len(setup) + 2] + [q], "result": str(out)[:300]})
                continue
            got = out["rows"][0]
            wrong = []
            for j, (g, w) in enumerate(zip(got, want)):
                if isinstance(w, tuple) and w[0] == "bag":
                    ok = g != "N" and sorted(g[1:].split(w[1])) == w[2]
                elif isinstance(w, tuple):
                    ok = g in w[1]
                else:
                    ok = g == w
                if not ok:
                    wrong.append({"column": j, "got": g[:200], "want": w if not isinstance(w, tuple) else [w[0], str(sorted(w[-1]))[:200]]})
            if wrong or len(got) != len(want):
                bad.append({"what": "wrong value from an ungrouped aggregate mixing DISTINCT and non-DISTINCT aggregates (a state merged into the global state twice?)",
                            "sql": q, "config": c["id"], "stmts": c["stmts"][:len(setup) + 2] + [q], "wrong": wrong})
    return {"n": nq, "bad": bad, "cases": len(cases)}


def stage_sql(gverif):
    """the one query-level observation of this model: a LIST sort key must fail cleanly (repaired 59d348515; it used
    to reach unimplemented!()) - a panic here is a violation"""
    sql = "select l from (select [1,2] as l union all select [3]) s order by l"
    r = common.run_harness(gverif, "sql", [{"id": "s", "mode": "threaded", "threads": 1, "timeout_s": 20, "stmts": [sql]}], timeout=60)[0]
    last = (r.get("results") or [{}])[-1]
    return sql, last, r


def run(ctx):
    t0 = time.time()
    rng = common.Rng(ctx["seed"])
    out = {"violations": [], "known": [], "assumptions": []}
    tb = tables_layout.regenerate()
    glayout, _ = common.build_harness(bin="gv_layout")
    gverif, _ = common.build_harness()
    pr = common.coq_props(PROPS)
    audit = [a for a in common.audit_sources() if re.search(r"(Layout|C16)", a)]
    obligations = pr["declared"]
    bad_assum = common.check_assumptions(pr) if pr["ok"] else []
    proof_broken = (not pr["ok"]) or bool(bad_assum) or bool(audit)
    discharged = 0 if proof_broken else len(obligations)
    machinery = []
    t1 = time.time()
    try:
        gmodel = common.build_ocaml("layout")
        s = stage(ctx, rng, glayout, gmodel, tb)
    except (SystemExit, Exception) as e:      # extraction / model driver failure: the implementation-side search still runs
        machinery.append("model side failed: %s" % str(e)[:400])
        s = {"n": 0, "mismatches": [], "distinct": 0, "counts": {}, "agg_bind_errors": 0, "state_alignments_seen": [], "sample": None,
             "missing_constants": [k for k, v in tb.items() if v is None], "model_predictions_skipped": -1}
    for m in s["mismatches"][:30]:
        out["violations"].append({"what": m.get("what", "real layout / block arithmetic differs from the model (model/Layout.v)"), "replay": m, "no_input": False})
    rt = stage_rowtrip(ctx, rng, glayout)
    for m in rt["bad"][:15]:
        out["violations"].append({"what": m["what"], "replay": m, "no_input": False})
    sq = stage_strings_sql(ctx, rng, gverif)
    for m in sq["bad"][:15]:
        out["violations"].append({"what": m["what"], "replay": m, "no_input": False})
    ud = stage_ungrouped_distinct_sql(ctx, rng, gverif)
    for m in ud["bad"][:15]:
        out["violations"].append({"what": m["what"], "replay": m, "no_input": False})
    sql, last, raw = stage_sql(gverif)
    listed = {k["id"]: k for k in common.known_findings()["known"] if k["property"] == PID}
    if last.get("ok"):
        out["violations"].append({"what": "ORDER BY a list column succeeds although the modelled SortLayout::try_new refuses list keys (re-transcribe model/Layout.v)",
                                  "replay": {"sql": [sql], "result": str(last)[:300]}, "no_input": False})
    if "panic" in last or "abort" in raw:
        if "order-by-list-panics" in listed and "not implemented" in (last.get("panic") or str(raw.get("stderr", ""))):
            out["known"].append("order-by-list-panics: %s (%s)" % (listed["order-by-list-panics"]["what"], sql))
        else:
            out["violations"].append({"what": "ORDER BY a list column panics", "replay": {"sql": [sql], "result": str(last)[:300]}, "no_input": False})
    if proof_broken or machinery or s["missing_constants"]:
        # the concrete failing inputs found on the implementation (above) are the replay; only without any: no-failing-input-found
        found = [v["replay"] for v in out["violations"][:3]]
        what = ("theorem(s) in %s no longer check" % PROPS) if proof_broken else \
               ("source constants not found by vlib/tables_layout.py: %s" % ", ".join(s["missing_constants"])) if s["missing_constants"] else machinery[0]
        out["violations"].append({"what": what,
                                  "replay": {"failed_at": pr.get("failed_at"), "log_tail": pr["log"][-1500:] if not pr["ok"] else "",
                                             "assumption_problems": bad_assum, "audit": audit, "tables": tb, "missing_constants": s["missing_constants"],
                                             "machinery": machinery, "failing_inputs_found_on_the_implementation": found},
                                  "no_input": not found})
    out["coverage"] = {
        "obligations": len(obligations), "discharged": discharged,
        "checker_cmd": "cd coq && make props/C16.vo (Print Assumptions parsed; Admitted/Axiom audit over the C16 files)",
        "trusted_base": ["Coq 8.16.1 kernel",
                         "PARTIAL CLAIM: only the bounds and alignment of the modelled address arithmetic are proved. NOT exhibitable by the model and NOT claimed: "
                         "lifetimes of heap blocks referenced by raw row pointers (merge_blocks_from / take_blocks), initialisation of freshly reserved block bytes, "
                         "data races between partitions, the vtable downcasts in operators/mod.rs and functions/*/mod.rs, usize overflow of the size computations",
                         "vlib/tables_layout.py source scanner (MAX_INLINE_LEN, the operator and right-hand side of EVERY inline/reference length test: array push, "
                         "StringView and StringPtr is_inline / is_reference, the four constructor assertions; inline buffer length; ROW_INDEX_WIDTH; that the row writer "
                         "decides on `!view.is_inline()` and that compute_heap_sizes tests the validity of the selected row); the real StringView/StringPtr predicates are "
                         "also evaluated for every length 0..40 by gv_layout and compared",
                         "vlib/c16.py PHYS: the DataType -> PhysicalType map (decimal64 -> Int64, date32 -> Int32, timestamp -> Int64, ...)",
                         "harness/src/bin/gv_layout.rs and the add-only cfg(glaredb_verif) hooks RowLayout::verif_parts, AggregateLayout::verif_parts, SortLayout::verif_parts, "
                         "row_collection::verif_prepare_append (runs the real RowBlocks::prepare_append), hash_aggregate::verif_hooks",
                         "aggregate state (size, align) are inputs of the model (observed from aggregate_state_info(); every observed alignment is checked to be a power of two)",
                         "extraction (ExtrOcamlBasic) + ocaml/layout.ml parsing/printing",
                         "the pointer-based readers/writers (row_layout.rs write_array / read_array, sort_layout.rs write_key_array, row_matcher.rs) are tied to the model only through the offsets they use; their own code is not modelled"],
        "theorems": obligations,
        "evaluations": s["n"] + rt["n"] + sq["n"] + ud["n"], "distinct_nontrivial": s["distinct"],
        "sql_ungrouped_distinct_mix": {"queries_checked": ud["n"], "engines": ud["cases"]},
        "row_collection_roundtrip": {"cases": rt["cases"], "strings": rt["n"]},
        "sql_strings_around_inline_threshold": {"queries_checked": sq["n"], "engines_a": sq["cases_a"], "engines_b": sq["cases_b"]},
        "rule": "one evaluation = one layout / append sequence / view batch / mask batch computed by the real code and by the extracted model, compared field by field "
                "(every offset, width, validity width, heap flag, byte_offset(3,c), aggregate offsets/base_align/row_width, sort offsets/widths/compare_width/row_width/heap mapping, "
                "every row pointer as (block, byte offset) and every block's (capacity, reserved)); distinct = distinct model outputs",
        "samples": [s["sample"]],
        "missing_source_constants": s["missing_constants"], "model_predictions_skipped": s["model_predictions_skipped"],
        "case_counts": s["counts"], "aggregate_bind_errors_skipped": s["agg_bind_errors"], "state_alignments_seen": s["state_alignments_seen"],
        "source_constants": tb, "exhaustive": False,
        "stage_seconds": {"build+proofs": round(t1 - t0, 1), "correspondence": round(time.time() - t1, 1)},
    }
    out["level"] = "proof (partial)"
    out["assumptions"] = [
        "PARTIAL: the model exhibits address arithmetic only; lifetimes, initialisation, data races and the vtable downcasts cannot be exhibited by it and are not claimed",
        "all sizes are unbounded naturals: usize overflow (row_width * row_capacity, offsets) is not modelled",
        "prepare_append_never_overfills assumes row_width <> 0 (a zero width panics: C16_prepare_append_zero_width_panics) and the block invariant reserved <= capacity; "
        "termination needs row_capacity <> 0 (C16_prepare_append_zero_capacity_diverges); the engine rejects `SET batch_size TO 0`",
        "agg_state_aligned assumes power-of-two alignments (Rust's align_of; checked on every observed state) and a buffer base that is a multiple of base_align (DbVec::new_uninit_with_align is not modelled)",
        "heap sizing is modelled for Utf8/Binary columns (compute_heap_sizes over validity, array selection and row selection; List/Struct are not-implemented errors in the code); "
        "the hash-join directory sizing (floating point load factor) is not modelled, only the mask arithmetic is",
        "aggregate STATE lifetimes (each state combined into the global state once, dropped once) are not modelled: the ungrouped DISTINCT / non-DISTINCT family is an "
        "implementation-side search with exact expected values (doubled sums / double frees show as wrong values or a dead engine)",
        "the string round trip model tracks WHICH union variant is written and read (inline / reference), not the bytes; the bytes are checked by the real RowCollection round trip and the SQL stage",
        "a row_capacity of 0 is never run on the real code (it would not terminate)"]
    out["wall"] = time.time() - t0
    return out
