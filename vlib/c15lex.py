"""C15 (front end, topic `lexer`) — the SQL tokenizer is total: every statement text yields tokens or an error,
never a panic, an out-of-bounds / off-boundary slice or an unbounded loop.  Merged into C15 by the lead
(`common.merge_results(main, c15lex.run(ctx), "lexer")`).

Proof part (coq/props/C15lex.v over coq/model/Lexer.v, a transcription of crates/glaredb_parser/src/tokens.rs with
explicit Panic / Fuel outcomes): totality with fuel = characters + 1, slices in bounds, tokens tile the input, the
only errors are "Unhandled character" and "Unterminated quoted string" (doubled quotes are escapes), keyword table strictly sorted (binary_search precondition); and over
coq/model/ParserSkel.v (Parser::next/peek_nth and the Pratt loop of ast/expr.rs): guarded token indexing, termination,
recursion depth <= tokens, witness family of depth n.
Correspondence part (this module): the real tokenizer (harness/src/bin/gv_lex.rs, catch_unwind per text) and the
extracted model (ocaml/lexer.ml) on the same generated texts; the complete canonical token lists (kind, text,
start_idx, line, col, keyword) or the error character must agree; any panic of the real tokenizer is a violation.
The Unicode tables char::is_alphabetic / is_numeric are dumped from the std the engine is built with and fed to
the model (which is proved for all tables)."""
import json, os, time
from . import common, tables_lexer

PID = "C15"
PROPS = "props/C15lex.v"

KEYWORDS = ["select", "from", "where", "group", "by", "having", "order", "limit", "offset", "join", "on", "left", "union", "all", "as",
            "case", "when", "then", "else", "end", "in", "exists", "not", "and", "or", "null", "with", "distinct", "values", "insert",
            "into", "create", "temp", "table", "drop", "set", "to", "cast", "is", "between", "like", "ilike", "interval", "date",
            "true", "false", "xor", "timezone_hour", "int", "decimal", "float8", "TimeStamp", "SELECT", "Select"]
OPS = ["=", "==", "!=", "<>", "<", ">", "<=", ">=", "+", "-", "*", "/", "//", "%", "**", "<<", ">>", "|", "&", "#", "||", ",", "(", ")",
       ".", ":", "::", ";", "{", "}", "[", "]", "=>", "!", "^", "~", "^@", "--", "/*", "*/", "->", "->>", "<=>", "@", "$", "?", "\\", "`"]
MULTI = ["é", "ß", "中", "٣", " ", " ", "　", "\U0001f600", "\U00010400", "K", "́", "﻿", "�", "ª",
         "Ⅰ", "²", "ก", "​", "\U000e0001", "߿", "ࠀ", "￿", "\U00010000", "\U0010ffff", "\u007f", "\u0080"]
DELIMS = ["'", "\"", "-", "--", "/", "*", ".", "0", "9", " ", "\n", "\r", "\t", "_", "a", "(", ")", "=", "<", ">", "!", "|", ":", "^", "\u0000", "\u0001"]
NUMS = ["1", "0", "007", "1.", ".5", "1.5", "1..2", "1.2.3", "..", ".", "1e", "1e5", "1E5", "1e+", "1e+5", "1e-5", "1.e5", ".e5", "1.5e+", "0x1F",
        "1_000", "9223372036854775808", "1" * 400, "." * 7, "1.e", "e5", "5e", "1e5e5", "1.0.0e1", "٣", "1٣", "٣1", "1²"]


def hx(s):
    return s.encode("utf-8").hex()


# ------------------------------------------------------------------ generators
def g_ident(rng):
    k = rng.below(10)
    if k < 4:
        return rng.choice(["a", "b", "t", "x1", "col_2", "_u", "T", "MixedCase", "é", "naïve", "中文", "a٣", "_", "__", "x_"])
    if k < 6:
        return "\"" + rng.choice(["q", "Q q", "é", "", "a.b", "sel'ect", "--", "\n"]) + "\""
    if k < 8:
        return rng.choice(["s", "t"]) + "." + rng.choice(["a", "b", "*", "\"c\""])
    return rng.choice(KEYWORDS)


def g_lit(rng):
    k = rng.below(8)
    if k < 3:
        return rng.choice(NUMS[:12])
    if k < 6:
        return "'" + rng.choice(["", "x", "it''s", "é中", "a b", "--", "/*", "\n", "\"", "%_", "1992-10-11", "\U0001f600"]) + "'"
    return rng.choice(["null", "true", "false", "date '1992-10-11'", "interval '1' year"])


def g_expr(rng, d=0):
    k = rng.below(12)
    if d > 3 or k < 3:
        return rng.choice([g_ident, g_lit])(rng)
    if k < 7:
        return g_expr(rng, d + 1) + rng.choice([" ", "", "  ", "\n", "\t"]) + rng.choice(OPS[:21]) + rng.choice([" ", "", "\r\n"]) + g_expr(rng, d + 1)
    if k == 7:
        return "(" + g_expr(rng, d + 1) + ")"
    if k == 8:
        return rng.choice(["sum", "count", "coalesce", "f"]) + "(" + ", ".join(g_expr(rng, d + 1) for _ in range(rng.below(3))) + ")"
    if k == 9:
        return g_expr(rng, d + 1) + "::" + rng.choice(["int", "text", "decimal(4, 1)"])
    if k == 10:
        return "case when " + g_expr(rng, d + 1) + " then " + g_expr(rng, d + 1) + " else " + g_expr(rng, d + 1) + " end"
    return g_expr(rng, d + 1) + rng.choice([" is null", " not in (1, 2)", " between 1 and 2", " like 'a%'", "[1:2]"])


def g_sql(rng):
    s = "select " + ", ".join(g_expr(rng) + (rng.choice(["", " as " + g_ident(rng)])) for _ in range(1 + rng.below(3)))
    if rng.chance(70):
        s += "\nfrom " + g_ident(rng)
    if rng.chance(40):
        s += " where " + g_expr(rng)
    if rng.chance(20):
        s += " -- trailing comment" + rng.choice(["", "\n", " é\n", "\r\n"])
    if rng.chance(20):
        s += rng.choice([";", "; ", ";;", ";\n"])
    if rng.chance(10):
        s = "/* c */ " + s
    return s


def g_soup(rng):
    pool = OPS + KEYWORDS + MULTI + DELIMS + NUMS + ["'", "''", "\"", "x", "é"]
    return "".join(rng.choice(pool) + rng.choice(["", "", " ", "\n"]) for _ in range(1 + rng.below(14)))


def g_mutate(rng, s):
    cs = list(s)
    if not cs:
        return "'"
    k = rng.below(8)
    i = rng.below(len(cs))
    if k == 0:
        del cs[i]
    elif k == 1:
        cs.insert(i, rng.choice(DELIMS))
    elif k == 2:
        cs.insert(i, rng.choice(MULTI))
    elif k == 3:
        cs[i] = rng.choice(DELIMS + MULTI)
    elif k == 4:
        cs = cs[:i]
    elif k == 5:
        cs = cs[i:]
    elif k == 6:
        j = rng.below(len(cs))
        cs[i], cs[j] = cs[j], cs[i]
    else:
        cs.insert(i, rng.choice(OPS))
    return "".join(cs)


def adversarial(rng, tier):
    out = []
    base = "select 'ab', \"cd\" -- e\n, 1.5 /* f */ from t"
    # every unterminated construct opened at every position of a base text, every cut of the base text
    for i in range(len(base) + 1):
        for opener in ["'", "\"", "--", "/*", "'é", "\"中"]:
            out.append(base[:i] + opener + base[i:])
        out.append(base[:i])
    # 1..4-byte characters (and NUL, controls) adjacent to every delimiter, before / after / both / alone
    for m in MULTI + ["\u0000", "\u0001", "\u001f"]:
        out.append(m)
        for d in DELIMS + OPS:
            out += [m + d, d + m, d + m + d, m + d + m, "a" + m + d, d + "1" + m]
    # a token whose LAST character is 1..4 bytes wide, for every kind of token that is sliced out of the text
    # (string, identifier, quoted identifier, comment) and next to numbers; at end of input and followed by more
    for m in MULTI:
        out += ["'a" + m + "'", "'a" + m, "'" + m + "' x", "x" + m, "x" + m + " y", "x" + m + "'s'", "\"a" + m + "\"", "\"a" + m, "\"" + m + "\".b",
                "--a" + m, "--a" + m + "\n1", "-- " + m + "\r\n", "1" + m, "1." + m, ".5" + m + "1", m + "1", "'" + m + "''" + m + "'", "select 'caf" + m + "'"]
    # quotes: doubled quote = escaped quote, unterminated = error (regression inputs of the tokens.rs repair)
    out += ["'it''s'", "\"a\"\"b\"", "''", "''''", "'''", "''''''", "'''''", "'a''", "'a'''", "''a'", "x''y", "'a''b''c'", "'a' 'b'", "'a'''b'", "'abc", "\"x",
            "select 'abc", "select 1 as \"x", "\"\"", "\"\"\"\"", "\"\"\"", "\"a\"\"", "'\"'", "\"'\"", "'é''é'", "'''é'", "\"中\"\"中\"", "'a''\n''b'", "''\n''", "e'a\\'b'"]
    for k in range(1, 9):
        out += ["'" * k, "\"" * k, "'" * k + "a", "a" + "'" * k, "'" * k + " " + "'" * k]
    # numbers with every exponent / period shape, glued to identifiers, operators and quotes
    for n in NUMS:
        for tail in ["", " ", "a", ".", "'", "x.y", "e", "-", "+1", "\n"]:
            out.append(n + tail)
            out.append("x" + n + tail)
            out.append("-" + n + tail)
    # block comments: nested, unnested, unterminated
    out += ["/**/", "/* */", "/* /* */ */", "/* /* */", "/*", "*/", "/*/", "/**", "/***/", "/* -- */", "-- /*\n*/", "a/*b*/c", "1/*2*/3",
            "/*é*/", "/*\n*/", "--", "---", "----", "-- \n-- ", "--\r\n1", "--\n", "- -", "-\n-"]
    # empty text and whitespace only
    out += ["", " ", "\n", "\r\n", "\t \n", " ", " 　 "]
    # very long tokens (few tokens per text: the model's slicing is linear in the offset, its decoder recursive)
    n_long = 100000 if tier == "quick" else 300000
    n_mid = n_long // 5
    out += ["1" * n_long, "_" * n_long, "'" + "x" * n_long + "'", "--" + " c" * (n_long // 2), "1." + "0" * n_long, "'" + "é" * n_mid, "\"" + "中" * n_mid + "\""]
    for ch in ["a", "é", "中", "\U0001f600"]:
        out.append(ch * n_mid)
    out += ["." * 2000, "(" * 2000, "''" * 1000, "a " * 500, "\n" * 2000, "<" * 2001, "-" * 2001, "--" + "-" * 2001 + "\n" + "-" * 3]
    for _ in range(200 if tier == "quick" else 2000):
        out.append("".join(rng.choice(MULTI + DELIMS) for _ in range(1 + rng.below(12))))
    return out


def build_cases(rng, tier):
    n = {"quick": 3000, "thorough": 60000}[tier]
    cases = []
    valid = [g_sql(rng) for _ in range(n)]
    cases += [("sql", s) for s in valid]
    cases += [("soup", g_soup(rng)) for _ in range(n)]
    cases += [("adversarial", s) for s in adversarial(rng, tier)]
    for s in valid:
        m = g_mutate(rng, s)
        if rng.chance(30):
            m = g_mutate(rng, m)
        cases.append(("mutation", m))
    return cases


# ------------------------------------------------------------------ judging
def impl_tiles(text, line):
    """independent reading of the real tokenizer's answer: the start indices must tile the UTF-8 bytes of the
    text with non-empty, character-aligned pieces (what C15lex_lexer_tokens_cover_input says of the model)"""
    if not line.startswith("OK"):
        return True
    body = line[3:]
    if body == "":
        return text == ""
    starts = [int(t.split(",")[2]) for t in body.split(";")]
    b = text.encode("utf-8")
    if starts[0] != 0:
        return False
    for a, c in zip(starts, starts[1:] + [len(b)]):
        if not (a < c <= len(b)):
            return False
        try:
            b[a:c].decode("utf-8")
        except UnicodeDecodeError:
            return False
    return True


def shrink(text, bad, budget=150):
    """greedy character deletion keeping `bad(text)`; at most `budget` evaluations of `bad`"""
    cur = text
    if len(cur) > 4000:
        return cur
    left = [budget]
    changed = True
    while changed and len(cur) > 1 and left[0] > 0:
        changed = False
        step = max(1, len(cur) // 2)
        while step >= 1 and left[0] > 0:
            i = 0
            while i < len(cur) and left[0] > 0:
                cand = cur[:i] + cur[i + step:]
                left[0] -= 1
                if cand != cur and bad(cand):
                    cur = cand
                    changed = True
                else:
                    i += step
            step //= 2
    return cur


# ------------------------------------------------------------------ expression parser (model/ParserSkel.v)
BINOPS = ["+", "-", "*", "/", "//", "%", "^", "**", "<<", ">>", "|", "&", "#", "||", "^@", "=", "==", "<>", "!=", "<", "<=", ">", ">=", "and", "or", "xor"]
TYPES = ["int", "text", "varchar", "decimal", "decimal(4)", "decimal(4, 1)", "numeric(10,-2)", "decimal(99999999999999999999)", "decimal(1.5)", "bool", "date",
         "timestamp", "float8", "uint1", "blob", "half", "interval", "decimal(", "bigint"]
PKW = ["select", "from", "where", "as", "and", "or", "not", "is", "in", "like", "ilike", "between", "case", "when", "then", "else", "end", "null", "true", "false",
       "distinct", "cast", "interval", "date", "year", "years", "month", "exists", "any", "all", "some", "filter", "over", "position", "substring", "for",
       "extract", "columns", "xor", "rlike", "regexp", "similar", "with", "values", "union", "limit", "order", "by", "int", "decimal", "text", "epoch", "dow"]


def p_ident(rng):
    return rng.choice(["a", "b", "c1", "tbl", "\"Q\"", "\"x y\"", "é", "_z", "f", "g"])


def p_atom(rng):
    k = rng.below(14)
    if k < 3:
        return rng.choice(["1", "0", "42", "1.5", ".5", "1.", "007", "9223372036854775807"])
    if k < 5:
        return "'" + rng.choice(["", "x", "a b", "é", "1992-10-11", "year", "%a_"]) + "'"
    if k < 8:
        return p_ident(rng)
    if k == 8:
        return p_ident(rng) + "." + rng.choice([p_ident(rng), "*", p_ident(rng) + "." + p_ident(rng), p_ident(rng) + ".*"])
    if k == 9:
        return rng.choice(["null", "true", "false", "TRUE", "Null"])
    if k == 10:
        return rng.choice(["date '1992-10-11'", "timestamp 'x'", "int '4'", "decimal(4,1) '1.5'", "bool 'true'", "interval '1' year", "interval 2 years",
                           "interval '1 year'", "interval 1", "interval - 1 month", "text 'a'"])
    if k == 11:
        return "[" + ", ".join(p_atom(rng) for _ in range(rng.below(3))) + "]"
    if k == 12:
        return "columns('" + rng.choice(["a.*", ""]) + "')"
    return rng.choice(["count(*)", "f()", "now ( )"])


def p_expr(rng, d=0):
    k = rng.below(30)
    if d > 3 or k < 6:
        return p_atom(rng)
    e = lambda: p_expr(rng, d + 1)
    sp = lambda: rng.choice([" ", " ", "  ", "\n", " /* no */ " if False else " -- c\n"])
    if k < 12:
        return e() + sp() + rng.choice(BINOPS) + sp() + e()
    if k == 12:
        return "(" + e() + ")"
    if k == 13:
        return "(" + e() + ", " + e() + rng.choice(["", ", " + e(), ","]) + ")"
    if k == 14:
        return rng.choice(["-", "+", "~", "not ", "- ", "NOT "]) + e()
    if k == 15:
        return rng.choice(["f", "sum", "a.g", "count"]) + "(" + rng.choice(["", "distinct "]) + ", ".join(
            rng.choice(["", "", "n => ", "n = "]) + e() for _ in range(rng.below(3))) + ")" + rng.choice(
            ["", "", " filter (where " + e() + ")", " over ()", " over w", " over (partition by a)", " filter (where true) over ()"])
    if k == 16:
        return e() + "::" + rng.choice(TYPES)
    if k == 17:
        return "cast(" + e() + " as " + rng.choice(TYPES) + ")"
    if k == 18:
        return "case " + rng.choice(["", e() + " "]) + " ".join("when " + e() + " then " + e() for _ in range(1 + rng.below(2))) + rng.choice(["", " else " + e()]) + " end"
    if k == 19:
        return e() + rng.choice([" is null", " is not null", " is true", " is not false", " is distinct from " + e(), " is not distinct from " + e(), " is not", " is 1"])
    if k == 20:
        return e() + rng.choice([" in ", " not in "]) + "(" + ", ".join(e() for _ in range(1 + rng.below(3))) + rng.choice(["", ","]) + ")"
    if k == 21:
        return e() + rng.choice([" like ", " not like ", " ilike ", " not ilike ", " rlike ", " similar "]) + e()
    if k == 22:
        return e() + rng.choice([" between ", " not between "]) + e() + " and " + e()
    if k == 23:
        return e() + "[" + rng.choice([e(), e() + ":" + e(), ":" + e(), e() + ":", ":", e() + ":" + e() + ":" + e(), ""]) + "]"
    if k == 24:
        return rng.choice(["substring(" + e() + " from " + e() + rng.choice(["", " for " + e()]) + ")", "substring(" + e() + ", " + e() + ", " + e() + ")",
                           "position(" + e() + " in " + e() + ")", "extract(" + rng.choice(["year", "'dow'", "epoch", "foo", "'nope'", "1"]) + " from " + e() + ")"])
    if k == 25:
        return rng.choice(["exists (select 1)", "not exists (select 1)", "(select 1)", e() + " in (select 1)", e() + " = any (select 1)", e() + " > all (" + e() + ")",
                           "(values (1))", "(with x as (select 1) select 1)"])
    if k == 26:
        return e() + " " + rng.choice(PKW) + " " + e()
    if k == 27:
        return rng.choice(PKW) + " " + e()
    return e() + rng.choice([" ,", " )", " ]", " ;", " as x", " from t", " x", ""])


def p_soup(rng):
    pool = BINOPS + PKW + ["(", ")", "[", "]", ",", ".", ":", "::", ";", "=>", "!", "~", "1", "'s'", "a", "\"q\"", "*", "-- c\n", "1.5"]
    return " ".join(rng.choice(pool) for _ in range(1 + rng.below(10)))


def p_mutate(rng, text):
    ts = text.split(" ")
    if not ts:
        return text
    i = rng.below(len(ts))
    k = rng.below(5)
    if k == 0:
        del ts[i]
    elif k == 1:
        ts.insert(i, rng.choice(PKW + BINOPS + ["(", ")", "[", "]", ","]))
    elif k == 2:
        ts[i] = rng.choice(PKW + BINOPS + ["1", "a"])
    elif k == 3:
        ts = ts[:i]
    else:
        j = rng.below(len(ts))
        ts[i], ts[j] = ts[j], ts[i]
    return " ".join(ts)


def p_deep(tier):
    n = 400 if tier == "quick" else 2000
    out = ["(" * n + "1" + ")" * n, "-" * n + "1", "- " * n, "not " * n + "true", "(" * n, "[" * n + "]" * n, "~" * n + "a" + "::int" * n,
           "interval " * n + "1", "case when " * (n // 4) + "1" + " then 2 end" * (n // 4), "f(" * n + ")" * n, "1" + " + 1" * n, "1" + " * (1" * n + ")" * n,
           "a" + "[1]" * n, "a" + ".b" * n, "a" + " is not null" * n, "1" + " between 1 and 2 and" * 50 + " 3", "1 in (" * n + "1" + ")" * n]
    return out


def canon_debug(s):
    """derived-Debug text of the Rust AST -> canonical: tag | tag(a,b) | "<hex>" | [a,b] | int   (field names dropped,
    `Name { f: v, .. }` -> `Name(v,..)`); one linear scan, no recursion (the ASTs can be thousands of levels deep)"""
    ESC = {"n": "\n", "r": "\r", "t": "\t", "0": "\0", "\\": "\\", '"': '"', "'": "'"}
    out = []
    n = len(s)
    pos = 0
    while pos < n:
        c = s[pos]
        if c == '"':
            pos += 1
            buf = []
            while s[pos] != '"':
                if s[pos] == "\\":
                    e = s[pos + 1]
                    if e == "u":
                        j = s.index("}", pos)
                        buf.append(chr(int(s[pos + 3:j], 16)))
                        pos = j + 1
                        continue
                    buf.append(ESC[e])
                    pos += 2
                else:
                    buf.append(s[pos])
                    pos += 1
            pos += 1
            out.append('"' + "".join(buf).encode("utf-8").hex() + '"')
        elif c in " \n\t":
            pos += 1
        elif c == "{":
            out.append("(")
            pos += 1
        elif c == "}":
            out.append(")")
            pos += 1
        elif c.isalpha() or c == "_":
            j = pos
            while j < n and (s[j].isalnum() or s[j] == "_"):
                j += 1
            if j < n and s[j] == ":":
                pos = j + 1            # a field name
            else:
                out.append(s[pos:j])
                pos = j
        else:
            out.append(c)
            pos += 1
    return "".join(out)


def run_both_expr(gv, gmodel, hdr, texts):
    impl = common.run_harness(gv, "expr", [{"id": i, "hex": hx(t)} for i, t in enumerate(texts)], timeout=900)
    model = common.run_model(gmodel, "expr", hdr + [hx(t) for t in texts], timeout=900)
    res = []
    for i, t in enumerate(texts):
        r = impl[i]
        if "out" not in r:
            il = "ABORT %s" % r.get("abort")
        else:
            o = r["out"].split(" ")
            if o[0] == "OK":
                try:
                    il = "OK %s %s" % (o[1], canon_debug(bytes.fromhex(o[2]).decode("utf-8")))
                except Exception as ex:  # noqa
                    il = "OK %s <unreadable Debug text: %s>" % (o[1], ex)
            elif o[0] == "ERR":
                il = "ERR"
            elif o[0] == "PANIC":
                il = "PANIC " + bytes.fromhex(o[1]).decode("utf-8", "replace")[:200] if len(o) > 1 else "PANIC"
            else:
                il = o[0]
        ml = model[i] if i < len(model) else "MISSING D0"
        body, sep, d = ml.rpartition(" D")
        if not sep or not d.isdigit():
            body, d = ml, "-1"              # LEXERR / NOTUTF8 carry no depth
        res.append((il, body, int(d)))
    return res


def expr_bad(il, ml):
    if il.startswith("PANIC") or il.startswith("ABORT"):
        return True
    if ml == "UNSUP":
        return False
    return il != ml


def stage_expr(ctx, rng, gv, gmodel, hdr):
    n = {"quick": 2500, "thorough": 30000}[ctx["tier"]]
    cases = []
    valid = [p_expr(rng) for _ in range(n)]
    cases += [("expr", t) for t in valid]
    cases += [("soup", p_soup(rng)) for _ in range(n)]
    cases += [("mutation", p_mutate(rng, t)) for t in valid]
    cases += [("deep", t) for t in p_deep(ctx["tier"])]
    texts = [t for _, t in cases]
    res = run_both_expr(gv, gmodel, hdr, texts)
    viol = []
    stats = {"by_generator": {}, "outcomes": {"ok": 0, "err": 0, "unsup": 0, "lexerr": 0}, "max_depth": 0, "ast_nodes_compared": 0}
    distinct = set()
    for (label, text), (il, ml, d) in zip(cases, res):
        stats["by_generator"][label] = stats["by_generator"].get(label, 0) + 1
        distinct.add(text)
        stats["max_depth"] = max(stats["max_depth"], d)
        if ml == "UNSUP":
            stats["outcomes"]["unsup"] += 1
        elif il.startswith("OK"):
            stats["outcomes"]["ok"] += 1
            stats["ast_nodes_compared"] += il.count("(") + il.count("[") + 1
        elif il == "ERR":
            stats["outcomes"]["err"] += 1
        elif il == "LEXERR":
            stats["outcomes"]["lexerr"] += 1
        if expr_bad(il, ml) and len(viol) < 6:
            def bad(sx):
                (a, b, _), = run_both_expr(gv, gmodel, hdr, [sx])
                return expr_bad(a, b)
            small = shrink(text, bad)
            (a, b, dd), = run_both_expr(gv, gmodel, hdr, [small])
            what = ("Expr::parse panics / aborts: %s" % a[:200]) if (a.startswith("PANIC") or a.startswith("ABORT")) else \
                   ("Expr::parse and model (coq/model/ParserSkel.v) disagree: impl %s | model %s" % (a[:160], b[:160]))
            viol.append({"what": what, "no_input": False,
                         "replay": {"kind": "expr", "hex": hx(small), "text": small[:300], "impl": a[:600], "model": b[:600], "generator": label}})
    return {"viol": viol, "stats": stats, "n": len(cases), "distinct": len(distinct),
            "sample": {"text": cases[5][1][:200], "impl": res[5][0][:300], "model_depth": res[5][2]}}



def class_tables(gv):
    rc, out = common.sh([gv, "classes"], timeout=120)
    c = json.loads(out.strip().splitlines()[-1])
    hdr = ["A " + " ".join("%d-%d" % (a, b) for a, b in c["alpha"]), "N " + " ".join("%d-%d" % (a, b) for a, b in c["numeric"])]
    return c, hdr


def run_both(gv, gmodel, hdr, texts):
    impl = common.run_harness(gv, "lex", [{"id": i, "hex": hx(t)} for i, t in enumerate(texts)], timeout=900)
    model = common.run_model(gmodel, "lex", hdr + [hx(t) for t in texts], timeout=900)
    res = []
    for i, t in enumerate(texts):
        r = impl[i]
        il = r.get("out") if "out" in r else "ABORT %s" % r.get("abort")
        res.append((il, model[i] if i < len(model) else "MISSING"))
    return res


def stage_lex(ctx, rng, gv, gmodel, hdr):
    cases = build_cases(rng, ctx["tier"])
    texts = [t for _, t in cases]
    res = run_both(gv, gmodel, hdr, texts)
    viol, stats = [], {"by_generator": {}, "outcomes": {"ok": 0, "err": 0}, "tokens": 0, "tiles_checked": 0, "max_bytes": 0, "kinds": {}}
    distinct = set()
    seen_kinds = set()
    for (label, text), (il, ml) in zip(cases, res):
        stats["by_generator"][label] = stats["by_generator"].get(label, 0) + 1
        distinct.add(text)
        stats["max_bytes"] = max(stats["max_bytes"], len(text.encode("utf-8")))
        what = None
        if il.startswith("PANIC") or il.startswith("ABORT"):
            what = "the tokenizer panics / aborts: %s" % il[:200]
        elif il != ml:
            what = "tokenizer and model (coq/model/Lexer.v) disagree: impl %s | model %s" % (il[:160], ml[:160])
        elif not impl_tiles(text, il):
            what = "token start indices do not tile the text: %s" % il[:200]
        if il.startswith("OK"):
            stats["outcomes"]["ok"] += 1
            body = il[3:]
            if body:
                ks = [t.split(",")[0] for t in body.split(";")]
                stats["tokens"] += len(ks)
                seen_kinds.update(ks)
            stats["tiles_checked"] += 1
        elif il.startswith("ERRQ"):
            stats["outcomes"]["err_unterminated"] = stats["outcomes"].get("err_unterminated", 0) + 1
        elif il.startswith("ERR"):
            stats["outcomes"]["err"] += 1
        if what and len(viol) < 6:
            def bad(s):
                (a, b), = run_both(gv, gmodel, hdr, [s])
                return a.startswith("PANIC") or a.startswith("ABORT") or a != b or not impl_tiles(s, a)
            small = shrink(text, bad) if len(text) <= 4000 else text
            (a, b), = run_both(gv, gmodel, hdr, [small])
            viol.append({"what": what, "no_input": False,
                         "replay": {"kind": "lex", "hex": hx(small), "text": small[:300], "impl": a[:600], "model": b[:600], "generator": label}})
    stats["kinds"] = sorted(seen_kinds)
    return {"viol": viol, "stats": stats, "n": len(cases), "distinct": len(distinct),
            "sample": {"text": cases[3][1][:200], "impl": res[3][0][:300]}}


def run(ctx):
    t0 = time.time()
    rng = common.Rng(ctx["seed"])
    out = {"violations": [], "known": [], "assumptions": []}
    tb = tables_lexer.regenerate()
    gv, _ = common.build_harness(bin="gv_lex")
    pr = common.coq_props(PROPS)
    audit = [a for a in common.audit_sources() if "Lexer" in a or "C15lex" in a or "ParserSkel" in a]
    obligations = pr["declared"]
    bad_assum = common.check_assumptions(pr) if pr["ok"] else []
    proof_broken = (not pr["ok"]) or bool(bad_assum) or bool(audit)
    gmodel = common.build_ocaml("lexer")
    classes, hdr = class_tables(gv)
    k = stage_lex(ctx, rng, gv, gmodel, hdr)
    out["violations"] += k["viol"]
    e = stage_expr(ctx, rng, gv, gmodel, hdr)
    out["violations"] += e["viol"]
    if not classes.get("alnum_is_alpha_or_numeric"):
        out["violations"].append({"what": "char::is_alphanumeric is not is_alphabetic || is_numeric in this std (assumption of model/Lexer.v)",
                                  "replay": {}, "no_input": True})
    if not tb["keywords"]:
        out["violations"].append({"what": "vlib/tables_lexer.py: define_keywords!(...) not found in keywords.rs", "replay": {}, "no_input": True})
    if proof_broken:
        out["violations"].append({"what": "theorem(s) in %s no longer check" % PROPS,
                                  "replay": {"failed_at": pr.get("failed_at"), "log_tail": pr["log"][-1500:] if not pr["ok"] else "",
                                             "assumption_problems": bad_assum, "audit": audit}, "no_input": not (k["viol"] or e["viol"])})
    st = k["stats"]
    out["coverage"] = {
        "obligations": len(obligations), "discharged": 0 if proof_broken else len(obligations),
        "checker_cmd": "cd coq && make props/C15lex.vo (Print Assumptions parsed; Admitted/Axiom audit)",
        "trusted_base": ["Coq 8.16.1 kernel",
                         "coq/model/Lexer.v is a hand transcription of crates/glaredb_parser/src/tokens.rs + keyword_from_str (checked by the correspondence run on complete token lists incl. start_idx/line/col/keyword)",
                         "Rust semantics assumed by the model: &s[a..b] panics iff not (a<=b<=len on char boundaries); usize add panics at 2^64 (overflow checks); chars()/char_indices() enumerate the code points with their byte offsets; char::is_alphanumeric = is_alphabetic || is_numeric (checked over all scalar values by `gv_lex classes`); slice::binary_search on a strictly sorted slice finds the equal element",
                         "harness/src/bin/gv_lex.rs (catch_unwind, canonical token rendering), ocaml/lexer.ml (table lookup, printing), extraction",
                         "vlib/tables_lexer.py scanner (keyword table, precedences)"],
        "theorems": obligations,
        "evaluations": k["n"] + e["n"], "distinct_nontrivial": k["distinct"] + e["distinct"],
        "rule": "one evaluation = one statement text tokenized by the real Tokenizer and by the extracted model, complete canonical token list (or error character) compared, start indices re-checked to tile the text; generators: sql grammar / token soup / adversarial (unterminated constructs at every position, 1-4 byte characters next to every delimiter, NUL, 10^5-character tokens, number shapes, block comments) / character mutations of the grammar texts",
        "samples": [k["sample"], e["sample"]],
        "expr": {"texts": e["n"], "distinct": e["distinct"], "by_generator": e["stats"]["by_generator"], "outcomes": e["stats"]["outcomes"],
                 "ast_nodes_compared": e["stats"]["ast_nodes_compared"], "max_model_depth": e["stats"]["max_depth"],
                 "rule": "one evaluation = one expression text: real Tokenizer + Expr::<Raw>::parse (1 GiB stack thread, catch_unwind) against the extracted "
                         "tokenizer + ParserSkel.parse_expr; compared: outcome class, parser index after the expression, the complete AST (derived Debug text "
                         "canonicalised); texts on which the model answers PUnsup (subqueries, non-empty window definitions) are only checked for panics"},
        "by_generator": st["by_generator"], "outcomes": st["outcomes"], "tokens_compared": st["tokens"], "token_kinds_seen": st["kinds"],
        "tilings_checked": st["tiles_checked"], "longest_text_bytes": st["max_bytes"],
        "unicode_tables": {"alphabetic_ranges": len(classes["alpha"]), "numeric_ranges": len(classes["numeric"])},
        "keywords": len(tb["keywords"]), "exhaustive": False,
    }
    out["assumptions"] = ["statement texts are valid Unicode (&str) shorter than 2^64 bytes",
                          "dev profile (overflow checks, debug assertions)",
                          "the tokenizer theorems hold for every pair of tables is_alphabetic / is_numeric; the correspondence run uses the tables of the std the harness is built with"]
    out["wall"] = time.time() - t0
    return out


def replay(ctx, payload):
    rp = payload.get("replay", payload)
    gv, _ = common.build_harness(bin="gv_lex")
    gmodel = common.build_ocaml("lexer")
    _, hdr = class_tables(gv)
    text = bytes.fromhex(rp["hex"]).decode("utf-8")
    if rp.get("kind") == "expr":
        print(run_both_expr(gv, gmodel, hdr, [text]))
    else:
        print(run_both(gv, gmodel, hdr, [text]))
    return 0
