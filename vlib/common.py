"""Shared plumbing for the ./check driver: building the harness and the Coq
targets, audits, evidence, known findings, replay files."""
import fcntl, hashlib, json, os, re, subprocess, sys, time

VERIF = os.path.dirname(os.path.dirname(os.path.abspath(__file__)))
# The tree under verification.  Always /repo for the registered checks; VERIF_REPO lets the lead point the
# whole machinery at a scratch worktree when trying seeded changes without disturbing /repo.
REPO = os.environ.get("VERIF_REPO", "/repo")
ALT = os.environ.get("VERIF_REPO", "/repo") != "/repo"
WORK = os.path.join(VERIF, ".work")
if ALT:
    WORK = os.path.join(WORK, "alt", hashlib.sha256(os.environ["VERIF_REPO"].encode()).hexdigest()[:8])
# alt runs get their own copy of the Coq tree (gen/Tables*.v differ), evidence and replays
COQ = os.path.join(WORK, "coq") if ALT else os.path.join(VERIF, "coq")
OUT = WORK if ALT else VERIF
HARNESS_SRC = os.path.join(VERIF, "harness")
if not ALT:
    HARNESS_DIR = HARNESS_SRC
    TARGET = os.path.join(WORK, "target")
else:
    HARNESS_DIR = os.path.join(WORK, "harness")
    TARGET = os.path.join(WORK, "target")
ENV = dict(os.environ, CARGO_NET_OFFLINE="true", RUST_BACKTRACE="0")

os.makedirs(WORK, exist_ok=True)
if ALT:
    subprocess.run(["rsync", "-a", "--exclude", "gen/Tables*.v", "--exclude", "gen/Tables*.vo*", "--exclude", "gen/*.glob",
                    os.path.join(VERIF, "coq") + "/", COQ + "/"], check=True)


class Lock:
    def __init__(self, name):
        self.path = os.path.join(WORK, name + ".lock")

    def __enter__(self):
        self.f = open(self.path, "w")
        fcntl.flock(self.f, fcntl.LOCK_EX)
        return self

    def __exit__(self, *a):
        fcntl.flock(self.f, fcntl.LOCK_UN)
        self.f.close()


def sh(cmd, cwd=None, timeout=3600, env=None, input=None):
    p = subprocess.run(cmd, cwd=cwd, shell=isinstance(cmd, str), stdout=subprocess.PIPE,
                       stderr=subprocess.STDOUT, timeout=timeout, env=env or ENV, input=input,
                       text=True)
    return p.returncode, p.stdout


# ---------------------------------------------------------------- harness
def build_harness(profile="dev", bin="gverif"):
    """Incremental cargo build of /verif/harness against /repo's working tree."""
    if HARNESS_DIR != HARNESS_SRC:
        _sync_alt_harness()
    with Lock("cargo"):
        lock_src = os.path.join(REPO, "Cargo.lock")
        lock_dst = os.path.join(HARNESS_DIR, "Cargo.lock")
        if not os.path.exists(lock_dst):
            import shutil
            shutil.copy(lock_src, lock_dst)
        cmd = ["cargo", "build", "--offline", "--quiet", "--bin", bin]
        if profile != "dev":
            cmd += ["--profile", profile]
        t0 = time.time()
        rc, out = sh(cmd, cwd=HARNESS_DIR, timeout=3600)
        if rc != 0:
            sys.stdout.write(out[-6000:])
            raise SystemExit("harness build failed (profile %s)" % profile)
        d = "debug" if profile == "dev" else profile
        return os.path.join(TARGET, d, bin), time.time() - t0


def _sync_alt_harness():
    """copy of the harness crate whose path dependencies point at VERIF_REPO, with its own target dir"""
    import shutil
    os.makedirs(HARNESS_DIR, exist_ok=True)
    for root, dirs, files in os.walk(HARNESS_SRC):
        rel = os.path.relpath(root, HARNESS_SRC)
        if rel.startswith("target"):
            continue
        os.makedirs(os.path.join(HARNESS_DIR, rel), exist_ok=True)
        for f in files:
            src = os.path.join(root, f)
            dst = os.path.join(HARNESS_DIR, rel, f)
            data = open(src, "rb").read()
            if f in ("Cargo.toml", "config.toml"):
                data = data.replace(b"/repo/", REPO.encode() + b"/").replace(b"/verif/.work/target", TARGET.encode())
            if f == "Cargo.lock":
                continue
            if not os.path.exists(dst) or open(dst, "rb").read() != data:
                open(dst, "wb").write(data)


def run_harness(binpath, sub, cases, timeout=600, per_case_restart=True):
    sub = [sub] if isinstance(sub, str) else list(sub)
    """Feed JSON cases (dicts with an 'id') to `gverif <sub>`; survive aborts:
    a case whose result is missing because the process died is reported as
    {'id':..,'abort':rc} and the remaining cases are re-submitted."""
    results = {}
    pending = list(cases)
    while pending:
        inp = "".join(json.dumps(c) + "\n" for c in pending)
        try:
            p = subprocess.run([binpath] + sub, input=inp, stdout=subprocess.PIPE,
                               stderr=subprocess.PIPE, timeout=timeout, env=ENV, text=True)
            rc, out, err = p.returncode, p.stdout, p.stderr
        except subprocess.TimeoutExpired as e:
            rc, out, err = -9, (e.stdout or b"").decode() if isinstance(e.stdout, bytes) else (e.stdout or ""), ""
        got = []
        for line in out.splitlines():
            try:
                r = json.loads(line)
            except Exception:
                continue
            results[r.get("id")] = r
            got.append(r.get("id"))
        done = set(got)
        rest = [c for c in pending if c["id"] not in done]
        if not rest:
            break
        # the first case without a result killed the process
        bad = rest[0]
        if bad["id"] not in results:
            results[bad["id"]] = {"id": bad["id"], "abort": rc, "stderr": err[-400:]}
        pending = rest[1:]
    return [results[c["id"]] for c in cases]


# ---------------------------------------------------------------- coq
FORBIDDEN = re.compile(r"\b(Admitted|admit|Axiom|Axioms|Parameter|Parameters|Conjecture|Hypothesis|Variable)\b|Unset Guard|bypass_check|type-in-type|impredicative-set|Admit Obligations|Unset Universe Checking|Unset Positivity")

STDLIB_AXIOM_ALLOW = {
    # standard-library axioms that may be reached (named in DESIGN.md / evidence)
    "FunctionalExtensionality.functional_extensionality_dep",
    "functional_extensionality_dep",
    "Eqdep.Eq_rect_eq.eq_rect_eq", "eq_rect_eq",
    "JMeq_eq", "JMeq.JMeq_eq",
    "Classical_Prop.classic", "classic",
    "ProofIrrelevance.proof_irrelevance", "proof_irrelevance",
    "ClassicalEpsilon.constructive_indefinite_description", "constructive_indefinite_description",
}


def coq_sources():
    out = []
    for root, _, files in os.walk(COQ):
        for f in files:
            if f.endswith(".v"):
                out.append(os.path.join(root, f))
    return sorted(out)


def audit_sources(files=None):
    """Forbidden constructs anywhere in the development (comments are stripped first;
    `Variable`/`Hypothesis` are allowed inside a Section only)."""
    problems = []
    for f in files or coq_sources():
        src = open(f).read()
        # strip comments (nested)
        out, depth, i = [], 0, 0
        while i < len(src):
            if src.startswith("(*", i):
                depth += 1; i += 2
            elif src.startswith("*)", i) and depth:
                depth -= 1; i += 2
            else:
                if depth == 0:
                    out.append(src[i])
                i += 1
        code = "".join(out)
        in_section = 0
        for ln, line in enumerate(code.splitlines(), 1):
            if re.match(r"\s*Section\b", line):
                in_section += 1
            if re.match(r"\s*End\b", line) and in_section:
                in_section -= 1
            for m in FORBIDDEN.finditer(line):
                w = m.group(0)
                if w in ("Variable", "Hypothesis") and in_section:
                    continue
                if w in ("Variable", "Hypothesis") and re.search(r"Context|Variables", line):
                    continue
                problems.append("%s:%d: %s" % (os.path.relpath(f, VERIF), ln, w))
    return problems


def coq_project_files():
    fs = []
    for root, _, files in os.walk(COQ):
        for f in files:
            if f.endswith(".v") and not f.startswith("cases_"):
                fs.append(os.path.relpath(os.path.join(root, f), COQ))
    return sorted(fs)


def coq_makefile():
    """(Re)generate _CoqProject and the Makefile when the file list changed."""
    with Lock("coq"):
        want = "-Q . GV\n" + "".join(f + "\n" for f in coq_project_files())
        pj = os.path.join(COQ, "_CoqProject")
        cur = open(pj).read() if os.path.exists(pj) else ""
        if cur != want or not os.path.exists(os.path.join(COQ, "Makefile")):
            open(pj, "w").write(want)
            rc, out = sh("coq_makefile -f _CoqProject -o Makefile", cwd=COQ)
            if rc != 0:
                raise SystemExit("coq_makefile failed\n" + out)


def coq_make(targets, timeout=3000, jobs=16):
    """Full .vo build of the given targets (paths relative to coq/, .vo)."""
    coq_makefile()
    with Lock("coq"):
        t0 = time.time()
        rc, out = sh(["timeout", str(timeout), "make", "-j%d" % jobs] + list(targets), cwd=COQ,
                     timeout=timeout + 60)
        return rc, out, time.time() - t0


def coq_props(prop_file, timeout=3000):
    """Build props/<Cxx>.v (and everything it depends on), always re-running the
    props file itself so that its `Print Assumptions` output is captured.
    Returns dict(ok, log, theorems=[(name, closed?, axioms)], wall)."""
    vo = prop_file[:-2] + ".vo"
    # dependencies first (cached), then the props file itself afresh
    rc, out, wall = coq_make([vo], timeout=timeout)
    log = out
    if rc == 0:
        with Lock("coq"):
            try:
                os.remove(os.path.join(COQ, vo))
            except FileNotFoundError:
                pass
        rc, out, w2 = coq_make([vo], timeout=timeout)
        wall += w2
        log = out
    res = {"ok": rc == 0, "log": log, "wall": wall, "theorems": []}
    src = open(os.path.join(COQ, prop_file)).read()
    names = re.findall(r"^\s*(?:Theorem|Lemma|Corollary)\s+([A-Za-z0-9_']+)", src, re.M)
    printed = re.findall(r"^\s*Print Assumptions\s+([A-Za-z0-9_'.]+)\s*\.", src, re.M)
    res["declared"] = names
    res["printed"] = printed
    if rc != 0:
        m = re.search(r'File "([^"]+)", line (\d+)', log)
        res["failed_at"] = m.group(0) if m else "unknown"
        return res
    # parse the Print Assumptions outputs in order
    chunks = re.split(r"(?m)^(?=Closed under the global context|Axioms:)", log)
    outs = [c for c in chunks if c.startswith("Closed under") or c.startswith("Axioms:")]
    for i, n in enumerate(printed):
        if i >= len(outs):
            res["theorems"].append((n, False, ["<no Print Assumptions output>"]))
            continue
        c = outs[i]
        if c.startswith("Closed under"):
            res["theorems"].append((n, True, []))
        else:
            axs = re.findall(r"(?m)^([A-Za-z_][A-Za-z0-9_.']*)\s*:", c[len("Axioms:"):])
            res["theorems"].append((n, False, axs))
    return res


def check_assumptions(res, allow=()):
    """Every declared theorem must be printed, and its axioms within the allowlist."""
    bad = []
    printed = set(n.split(".")[-1] for n in res["printed"])
    for n in res["declared"]:
        if n not in printed:
            bad.append("%s: no Print Assumptions" % n)
    for n, closed, axs in res["theorems"]:
        for a in axs:
            if a not in STDLIB_AXIOM_ALLOW and a not in allow:
                bad.append("%s depends on %s" % (n, a))
    return bad


def coq_eval(name, body, timeout=600):
    """Evaluate a scratch file coq/cases_<name>.v (not part of the project) with coqc
    after the project is built; returns (rc, stdout)."""
    path = os.path.join(COQ, "cases_%s.v" % name)
    open(path, "w").write(body)
    try:
        rc, out = sh(["timeout", str(timeout), "coqc", "-noglob", "-Q", ".", "GV", os.path.basename(path)],
                     cwd=COQ, timeout=timeout + 30)
    finally:
        for ext in (".v", ".vo", ".vok", ".vos", ".glob"):
            try:
                os.remove(path[:-2] + ext)
            except FileNotFoundError:
                pass
        try:
            os.remove(os.path.join(COQ, ".cases_%s.aux" % name))
        except FileNotFoundError:
            pass
    return rc, out


# ---------------------------------------------------------------- OCaml model driver
def build_ocaml(topic):
    """Extract the executable model of one topic (coq/extract/Extract<Topic>.v ->
    coq/extract/<topic>_model.ml) and build its line-protocol driver
    (ocaml/prelude.ml + ocaml/<topic>.ml).  Returns the driver path."""
    od = os.path.join(WORK, "ocaml", topic)
    os.makedirs(od, exist_ok=True)
    rc, out, _ = coq_make(["extract/Extract%s.vo" % topic.capitalize()])
    if rc != 0:
        sys.stdout.write(out[-4000:])
        raise SystemExit("extraction failed for topic " + topic)
    with Lock("ocaml-" + topic):
        src_ml = os.path.join(COQ, "extract", "%s_model.ml" % topic)
        pre = os.path.join(VERIF, "ocaml", "prelude.ml")
        drv = os.path.join(VERIF, "ocaml", topic + ".ml")
        exe = os.path.join(od, topic)
        stamp = os.path.join(od, "stamp")
        h = hashlib.sha256()
        for f in (src_ml, src_ml + "i", pre, drv):
            h.update(open(f, "rb").read())
        if os.path.exists(exe) and os.path.exists(stamp) and open(stamp).read() == h.hexdigest():
            return exe
        import shutil
        for f in (src_ml, src_ml + "i"):
            shutil.copy(f, od)
        modname = "%s_model" % topic
        with open(os.path.join(od, "driver.ml"), "w") as g:
            g.write("module B = Z  (* zarith, bound before the model's own module Z shadows it *)\n")
            g.write("open %s\n" % modname.capitalize())
            g.write(open(pre).read())
            g.write(open(drv).read())
        rc, out = sh("ocamlfind ocamlopt -O3 -w -a -package str,zarith %s.mli %s.ml driver.ml -linkpkg -o %s 2>&1"
                     % (modname, modname, topic), cwd=od, timeout=1200)
        if rc != 0:
            sys.stdout.write(out[-4000:])
            raise SystemExit("ocaml build failed for topic " + topic)
        open(stamp, "w").write(h.hexdigest())
        return exe


def run_model(exe, sub, lines, timeout=600):
    # the extracted evaluators are not tail recursive: give them an unlimited stack
    p = subprocess.run(["bash", "-c", 'ulimit -s unlimited 2>/dev/null || ulimit -s 4000000 2>/dev/null; exec "$0" "$@"', exe, sub],
                       input="".join(l + "\n" for l in lines), stdout=subprocess.PIPE,
                       stderr=subprocess.PIPE, timeout=timeout, text=True)
    if p.returncode != 0:
        raise SystemExit("model driver failed: " + p.stderr[-2000:])
    return p.stdout.splitlines()


# ---------------------------------------------------------------- findings, evidence, replays
def known_findings():
    """KNOWN_FINDINGS.json (lead-owned) merged with findings/<Cnn>.json (one per property)."""
    out = {"fixed": [], "known": []}
    paths = [os.path.join(VERIF, "KNOWN_FINDINGS.json")]
    fd = os.path.join(VERIF, "findings")
    if os.path.isdir(fd):
        paths += sorted(os.path.join(fd, f) for f in os.listdir(fd) if f.endswith(".json"))
    for p in paths:
        if os.path.exists(p):
            d = json.load(open(p))
            out["fixed"] += d.get("fixed", [])
            out["known"] += d.get("known", [])
    return out


def write_replay(pid, payload):
    d = os.path.join(OUT, "replays", pid)
    os.makedirs(d, exist_ok=True)
    blob = json.dumps(payload, indent=1, sort_keys=True, default=str)
    h = hashlib.sha256(blob.encode()).hexdigest()[:12]
    path = os.path.join(d, h + ".json")
    open(path, "w").write(blob)
    return path


def write_evidence(pid, tier, seed, coverage, assumptions, wall, violations, level="proof"):
    os.makedirs(os.path.join(OUT, "evidence"), exist_ok=True)
    ev = {"property_id": pid, "tier": tier, "seed": int(seed), "level": level,
          "coverage": coverage, "assumptions": assumptions, "wall_s": round(wall, 2),
          "violations": int(violations)}
    open(os.path.join(OUT, "evidence", pid + ".json"), "w").write(json.dumps(ev, indent=1, default=str))
    return ev


class Rng:
    """splitmix64: every random choice of a check derives from one seed."""
    def __init__(self, seed):
        self.s = seed & 0xFFFFFFFFFFFFFFFF

    def next(self):
        self.s = (self.s + 0x9E3779B97F4A7C15) & 0xFFFFFFFFFFFFFFFF
        z = self.s
        z = ((z ^ (z >> 30)) * 0xBF58476D1CE4E5B9) & 0xFFFFFFFFFFFFFFFF
        z = ((z ^ (z >> 27)) * 0x94D049BB133111EB) & 0xFFFFFFFFFFFFFFFF
        return z ^ (z >> 31)

    def below(self, n):
        return self.next() % n

    def choice(self, xs):
        return xs[self.below(len(xs))]

    def chance(self, pct):
        return self.below(100) < pct

    def shuffle(self, xs):
        xs = list(xs)
        for i in range(len(xs) - 1, 0, -1):
            j = self.below(i + 1)
            xs[i], xs[j] = xs[j], xs[i]
        return xs


def merge_results(main, extra, tag):
    """fold the result of a sub-check (same contract as run()) into the result of a property's check"""
    main["violations"] = list(main.get("violations", [])) + list(extra.get("violations", []))
    main["known"] = list(main.get("known", [])) + [k for k in extra.get("known", []) if k not in main.get("known", [])]
    main["assumptions"] = list(main.get("assumptions", [])) + [a for a in extra.get("assumptions", []) if a not in main.get("assumptions", [])]
    c, e = main.setdefault("coverage", {}), extra.get("coverage", {})
    for k in ("obligations", "discharged", "evaluations", "distinct_nontrivial"):
        if isinstance(e.get(k), int):
            c[k] = int(c.get(k, 0)) + e[k]
    if isinstance(e.get("theorems"), list):
        c["theorems"] = list(c.get("theorems", [])) + e["theorems"]
    if isinstance(e.get("trusted_base"), list):
        c["trusted_base"] = list(c.get("trusted_base", [])) + [t for t in e["trusted_base"] if t not in c.get("trusted_base", [])]
    c[tag] = {k: v for k, v in e.items() if k not in ("theorems",)}
    return main
