"""C10 — Reading a valid Parquet file returns exactly the rows it encodes.

K1: files written by the extracted Gallina spec encoder (coq/model/PqWrite.v -> `pq write`) are read by the real
    `read_parquet` under batch sizes x partitions; rows / NULLs / order / column types must equal the table.
K2: the real single decoders (hook column::verif, binary gv_pq) vs the extracted faithful streaming decoders on
    model-encoded and mutated buffers with random read-split sequences, value for value.
K3: parquet.file_metadata / rowgroup_metadata / column_metadata vs the footer the model wrote."""
import json, os, time
from . import common

PID = "C10"
PROPS = "props/C10.v"
WDIR = os.path.join(common.WORK, "pq")
BATCHES = [1, 3, 7, 1024]
PARTS = [1, 4]
EPOCH_JULIAN = 2440588
NANOS_PER_DAY = 86400 * 10 ** 9

# name -> (model physical type, converted_type, engine type, kind)
TYPES = {
    "i32": ("i32", None, "Int32", ("s", 32, 32)), "i8": ("i32", 15, "Int8", ("s", 8, 32)),
    "i16": ("i32", 16, "Int16", ("s", 16, 32)), "u8": ("i32", 11, "UInt8", ("u", 8, 32)),
    "u16": ("i32", 12, "UInt16", ("u", 16, 32)), "u32": ("i32", 13, "UInt32", ("u", 32, 32)),
    "date": ("i32", 6, "Date32", ("d", 32, 32)),
    "i64": ("i64", None, "Int64", ("s", 64, 64)), "u64": ("i64", 14, "UInt64", ("u", 64, 64)),
    "f32": ("f32", None, "Float32", ("f", 32, 32)), "f64": ("f64", None, "Float64", ("f", 64, 64)),
    "bool": ("bool", None, "Boolean", ("b", 1, 1)),
    "utf8": ("bytes", 0, "Utf8", ("t",)), "binary": ("bytes", None, "Binary", ("x",)),
    "i96": ("i96", None, "Timestamp(ns)", ("ts",)),
    # LogicalType annotations (SchemaElement field 10) and decimals
    "utf8l": ("bytes", None, "Utf8", ("t",), "string"), "u8l": ("i32", None, "UInt8", ("u", 8, 32), "int:8:u"),
    "i16l": ("i32", None, "Int16", ("s", 16, 32), "int:16:s"), "u32l": ("i32", None, "UInt32", ("u", 32, 32), "int:32:u"),
    "u64l": ("i64", None, "UInt64", ("u", 64, 64), "int:64:u"),
    "datel": ("i32", None, "Date32", ("d", 32, 32), "date"),
    "ts_ms": ("i64", None, "Timestamp(ms)", ("p", 64, 64, "Millisecond"), "timestamp:millis:1"),
    "ts_us": ("i64", None, "Timestamp(\u03bcs)", ("p", 64, 64, "Microsecond"), "timestamp:micros:0"),
    "ts_ns": ("i64", None, "Timestamp(ns)", ("p", 64, 64, "Nanosecond"), "timestamp:nanos:1"),
    "dec32": ("i32", 5, "Decimal64(9,2)", ("dec", 30, 32, 9, 2), None, (2, 9)),
    "dec64": ("i64", None, "Decimal64(18,3)", ("dec", 60, 64, 18, 3), "decimal:3:18", (3, 18)),
}
ENCS = {
    "i32": ["plain", "dict", "dbp", "bss"], "i64": ["plain", "dict", "dbp", "bss"],
    "i8": ["plain", "dict", "dbp"], "i16": ["plain", "dbp"], "u8": ["plain", "dbp"], "u16": ["dict", "dbp"],
    "u32": ["plain", "dict", "dbp"], "date": ["plain", "dbp"], "u64": ["plain", "dict", "dbp"],
    "f32": ["plain", "dict", "bss"], "f64": ["plain", "dict", "bss"], "bool": ["plain", "rle"],
    "utf8": ["plain", "dict", "dlba", "dba"], "binary": ["plain", "dict", "dlba", "dba"], "i96": ["plain", "dict"],
    "utf8l": ["plain", "dba"], "u8l": ["plain", "dbp"], "i16l": ["dict"], "u32l": ["dbp"], "u64l": ["plain", "dbp"],
    "datel": ["plain"], "ts_ms": ["plain", "dbp"], "ts_us": ["dict"], "ts_ns": ["dbp", "bss"], "dec32": ["plain", "dbp"], "dec64": ["plain", "dict"],
}
DELTA_FAMILY = ("dbp", "dlba", "dba")
STRS = ["", "a", "abc", "abcdefghijklmnop", "abcx", "zz", "héllo", "中文", "ab\u0000c", "x" * 40, "abcdefgh"]
F32 = [0, 0x80000000, 0x3f800000, 0xbf800000, 0x7f800000, 0xff800000, 0x7fc00000, 0x00000001, 0x7f7fffff, 0x40490fdb]
F64 = [0, 1 << 63, 0x3ff0000000000000, 0xbff0000000000000, 0x7ff0000000000000, 0xfff0000000000000,
       0x7ff8000000000000, 1, 0x7fefffffffffffff, 0x400921fb54442d18]


def int_cell(kind, v):
    k = kind[0]
    if k == "d":
        return "T%d" % v
    if k == "p":
        return "P%s:%d" % (kind[3], v)
    if k == "dec":
        return "D%d/%d/%d" % (v, kind[3], kind[4])
    return "I%d" % v


def gen_value(rng, tname, style):
    """-> (model token, expected engine cell)"""
    kind = TYPES[tname][3]
    k = kind[0]
    if k in ("s", "u", "d", "p", "dec"):
        lbits, pbits = kind[1], kind[2]
        lo, hi = (-(1 << (lbits - 1)), (1 << (lbits - 1)) - 1) if k != "u" else (0, (1 << lbits) - 1)
        if style == "small":
            v = rng.below(11) - 5 if lo < 0 else rng.below(11)
        elif style == "mono":
            v = None
        elif rng.chance(35):
            v = rng.choice([lo, hi, 0, 1, lo + 1, hi - 1, -1 if lo < 0 else 2])
        else:
            v = lo + rng.next() % (hi - lo + 1)
        if k == "d" and v is not None:
            v = max(-100000, min(100000, v))
        return v, lbits, pbits, k
    if k == "f":
        bits = kind[1]
        pool = F32 if bits == 32 else F64
        b = rng.choice(pool) if rng.chance(50) else rng.next() & ((1 << bits) - 1)
        return str(b), "F%x" % b
    if k == "b":
        b = rng.below(2) if style != "small" else (1 if rng.chance(85) else 0)
        return str(b), "B%d" % b
    if k == "t":
        s = rng.choice(STRS) if rng.chance(70) else "".join(chr(97 + rng.below(4)) for _ in range(rng.below(9)))
        return "x" + s.encode("utf-8").hex(), "S" + s
    if k == "x":
        if rng.chance(50):
            bs = rng.choice(STRS).encode("utf-8")
        else:
            bs = bytes(rng.choice([0, 1, 0x61, 0x62, 0xff, 0xfe, 0x80, 0xc3]) for _ in range(rng.below(7)))
        return "x" + bs.hex(), "X" + bs.hex()
    if k == "ts":
        jul = EPOCH_JULIAN + (rng.below(30000) if not (style == "pre1970") else -1 - rng.below(1000))
        nanos = rng.choice([0, 1, NANOS_PER_DAY - 1, 43200 * 10 ** 9]) if rng.chance(50) else rng.next() % NANOS_PER_DAY
        return str(nanos | (jul << 64)), "PNanosecond:%d" % ((jul - EPOCH_JULIAN) * NANOS_PER_DAY + nanos)
    raise ValueError(tname)


def gen_column(rng, name, tname, enc, optional, pattern, n, style=None):
    style = style or rng.choice(["any", "any", "small", "mono"])
    toks, cells = [], []
    kind = TYPES[tname][3]
    cur = None
    for i in range(n):
        g = gen_value(rng, tname, style)
        if len(g) == 4:  # integer family
            v, lbits, pbits, k = g
            lo, hi = (-(1 << (lbits - 1)), (1 << (lbits - 1)) - 1) if k != "u" else (0, (1 << lbits) - 1)
            if k == "d":
                lo, hi = -100000, 100000
            if v is None:  # monotone walk with occasional jumps
                cur = (rng.below(100) if cur is None else cur + rng.below(4)) if not rng.chance(3) else lo + rng.next() % (hi - lo + 1)
                cur = max(lo, min(hi, cur))
                v = cur
            tok = str(v & ((1 << pbits) - 1))
            cell = int_cell(kind, v)
        else:
            tok, cell = g
        toks.append(tok)
        cells.append(cell)
    if optional:
        for i in range(n):
            null = (pattern == "all") or (pattern == "alt" and i % 2 == 1) or (pattern == "rand" and rng.chance(30)) \
                or (pattern == "runs" and (i // 9) % 2 == 1)
            if null:
                toks[i], cells[i] = "N", "N"
    tt = TYPES[tname]
    return {"name": name, "tname": tname, "type": TYPES[tname][0], "conv": TYPES[tname][1], "ht": TYPES[tname][2],
            "logical": tt[4] if len(tt) > 4 else None, "decimal": tt[5] if len(tt) > 5 else None,
            "optional": optional, "enc": enc, "vals": toks, "cells": cells,
            "pages": None, "rle": (rng.choice([1, 2, 4, 8, 1000]), rng.choice([1, 1, 2, 3])),
            "delta": rng.choice([(128, 4), (128, 4), (128, 1), (256, 2), (256, 8)]), "dictx": rng.choice([0, 0, 0, 1, 5])}


def spec_line(case, path):
    parts = ['(file (out "%s") (v2 %d) (rgs %s) (created_by "%s") (lvl %d %d)' % (
        path, case["v2"], " ".join(str(x) for x in case["rgs"]), case["created_by"], case["lvl"][0], case["lvl"][1])]
    for c in case["cols"]:
        extra = ""
        if c.get("logical"):
            extra += " (logical %s)" % c["logical"]
        if c.get("decimal"):
            extra += " (decimal %d %d)" % c["decimal"]
        parts.append('(col (name "%s") (type %s) (conv %s)%s (optional %d) (enc %s) (pages %s) (rle %d %d) (delta %d %d) (dictx %d) (vals %s))' % (
            c["name"], c["type"], "none" if c["conv"] is None else c["conv"], extra, 1 if c["optional"] else 0, c["enc"],
            " ".join(str(x) for x in c["pages"]), c["rle"][0], c["rle"][1], c["delta"][0], c["delta"][1], c["dictx"],
            " ".join(c["vals"])))
    return " ".join(parts) + ")"


def rid_column(n):
    return {"name": "rid", "tname": "i32", "type": "i32", "conv": None, "ht": "Int32", "optional": False, "enc": "plain",
            "vals": [str(i) for i in range(n)], "cells": ["I%d" % i for i in range(n)], "pages": [max(1, n)],
            "rle": (8, 1), "delta": (128, 4), "dictx": 0}


def k1_cases(rng, tier):
    combos = []
    for t, encs in ENCS.items():
        for e in encs:
            for opt, pat in [(False, "none"), (True, "none"), (True, "all"), (True, "alt"), (True, "rand"), (True, "runs")]:
                combos.append((t, e, opt, pat))
    reps = 3 if tier == "quick" else 12
    cases = []
    pending = []
    for rep in range(reps):
        for cb in rng.shuffle(combos):
            pending.append(cb)
    i = 0
    while pending:
        first = pending.pop()
        group = [first]
        if first[1] not in DELTA_FAMILY and first[0] != "i96":
            # up to two more non-delta columns in the same file
            j = len(pending) - 1
            while j >= 0 and len(group) < 3:
                if pending[j][1] not in DELTA_FAMILY and pending[j][0] != "i96":
                    group.append(pending.pop(j))
                j -= 1
        big = tier != "quick" and rng.chance(30)
        n = rng.choice([0, 1, 2, 5, 8, 9, 16, 33, 40, 64, 65, 100, 130] + ([257, 300, 1030] if big else []))
        if first[1] in DELTA_FAMILY and rng.chance(25):
            n = rng.choice([2, 3, 33, 34, 129, 130, 131, 257, 258])
        v2 = rng.below(2)
        rgs = [rng.choice([max(1, n), max(1, n), 10, 37, 64, 7])]
        if rng.chance(20):
            rgs = [rng.choice([3, 8, 20]), rng.choice([5, 50])]
        cols = [rid_column(n)]
        for ci, (t, e, opt, pat) in enumerate(group):
            c = gen_column(rng, "c%d" % ci, t, e, opt, pat, n)
            c["pages"] = [rng.choice([max(1, n), max(1, n), 1, 2, 3, 5, 7, 8, 16, 33, 100])]
            if rng.chance(25):
                c["pages"] = [rng.choice([1, 4, 9]), rng.choice([2, 13, 40])]
            if e in DELTA_FAMILY and rng.chance(70):
                c["pages"] = [rng.choice([max(2, n), max(2, n), 40, 64, 130, 200])]   # fewer single-value pages
            cols.append(c)
        cases.append({"id": "f%d" % i, "v2": v2, "rgs": rgs, "created_by": "gverif pq model %d" % i,
                      "lvl": (rng.choice([1, 2, 8, 1000]), rng.choice([1, 2])), "cols": cols, "nrows": n})
        i += 1
    # directed cases for the confirmed defect classes and their neighbours
    def directed(idx, tname, enc, n, opt=False, pat="none", pages=None, style="any", delta=(128, 4)):
        c = gen_column(rng, "c0", tname, enc, opt, pat, n, style=style)
        c["pages"] = pages or [max(1, n)]
        c["delta"] = delta
        return {"id": "d%d" % idx, "v2": idx % 2, "rgs": [max(1, n)], "created_by": "gverif directed", "lvl": (8, 1),
                "cols": [rid_column(n), c], "nrows": n}
    d = [directed(0, "i32", "dbp", 4), directed(1, "i64", "dbp", 100), directed(2, "i32", "dbp", 1),
         directed(3, "utf8", "dlba", 1), directed(4, "utf8", "dlba", 129), directed(5, "utf8", "dba", 129),
         directed(6, "utf8", "dlba", 130), directed(7, "utf8", "dlba", 128), directed(8, "binary", "dlba", 20),
         directed(9, "i96", "plain", 12, style="pre1970"), directed(10, "i64", "dbp", 129), directed(11, "i64", "dbp", 130),
         directed(12, "i32", "dbp", 257, delta=(256, 8)), directed(13, "utf8", "dba", 257, delta=(256, 2)),
         directed(14, "utf8", "dlba", 33), directed(15, "i32", "dbp", 40, True, "alt", [40])]
    d[0]["cols"][1]["vals"] = ["1", "2", "3", "4"]
    d[0]["cols"][1]["cells"] = ["I1", "I2", "I3", "I4"]
    return cases + d


# ---------------------------------------------------------------- faithful prediction for the delta family
def row_groups(case):
    n, sizes, out, pos = case["nrows"], list(case["rgs"]), [], 0
    while pos < n:
        k = max(1, sizes[0])
        out.append((pos, min(n, pos + k)))
        pos += k
        if len(sizes) > 1:
            sizes = sizes[1:]
    return out


def pages_of(col, a, b):
    sizes, out, pos = list(col["pages"]), [], a
    while pos < b:
        k = max(1, sizes[0])
        out.append((pos, min(b, pos + k)))
        pos += k
        if len(sizes) > 1:
            sizes = sizes[1:]
    return out


def page_reads(col, rg_a, pa, pb, bs):
    """non-null counts of the pieces of page [pa,pb) cut by the batch boundaries of its row group"""
    reads, pos = [], pa
    while pos < pb:
        nxt = min(pb, rg_a + ((pos - rg_a) // bs + 1) * bs)
        reads.append(sum(1 for i in range(pos, nxt) if col["vals"][i] != "N"))
        pos = nxt
    return reads


def utf8_ok(b):
    try:
        b.decode("utf-8")
        return True
    except UnicodeDecodeError:
        return False


def predict(case, bs, gmodel):
    """(fails, rows, former): what the faithful decoder model (coq/model/PqDelta.v, the code as it is NOW) says about
    the delta-family pages of a case under batch size bs, and which REPAIRED defect classes (findings/C10.json "fixed")
    the case exercises.  fails = [(outcome, detail)] for pages the model does not decode; rows = {col: cells} it predicts."""
    fails, out, former = [], {}, []
    for c in case["cols"]:
        if c["type"] == "i96" and any(v != "N" and (int(v) >> 64) < EPOCH_JULIAN for v in c["vals"]):
            former.append("int96-before-epoch")
        if c["enc"] not in DELTA_FAMILY:
            continue
        cells = list(c["cells"])
        bits = 32 if c["type"] == "i32" else 64
        blk, mbc = c["delta"]
        for (a, b) in row_groups(case):
            for (pa, pb) in pages_of(c, a, b):
                idx = [i for i in range(pa, pb) if c["vals"][i] != "N"]
                vals = [c["vals"][i] for i in idx]
                where = "%s page rows %d..%d" % (c["name"], pa, pb)
                if len(vals) == 1:
                    former.append("dbp-single-value-page")
                if c["enc"] == "dbp":
                    reads = page_reads(c, a, pa, pb, bs)
                    if len([r for r in reads if r > 0]) >= 2:
                        former.append("dbp-resume")
                    hexs = common.run_model(gmodel, "decode", ["enc_dbp %d %d %d %s" % (bits, blk, mbc, " ".join(vals))])[0]
                    res = common.run_model(gmodel, "decode", ["dbp %d %s %s" % (bits, hexs, ",".join(str(r) for r in reads))])[0]
                    if not res.startswith("OK"):
                        fails.append((res, where))
                        continue
                    got = [int(x) for x in res[2:].replace("|", " ").split()]
                    kind = TYPES[c["tname"]][3]
                    for i, g in zip(idx, got):
                        lb = kind[1]
                        g &= (1 << lb) - 1
                        if kind[0] != "u" and g >> (lb - 1):
                            g -= 1 << lb
                        cells[i] = int_cell(kind, g)
                else:
                    op = c["enc"]
                    if len(vals) > 1 and (len(vals) - 1) % blk == 0:
                        former.append("delta-lengths-full-block")
                    if c["tname"] == "binary" and not all(utf8_ok(bytes.fromhex(v[1:])) for v in vals):
                        former.append("delta-bytearray-binary-utf8")
                    hexs = common.run_model(gmodel, "decode", ["enc_%s %d %d %s" % (op, blk, mbc, " ".join(vals))])[0]
                    res = common.run_model(gmodel, "decode", ["%s %s" % (op, hexs or "-")])[0]
                    if not res.startswith("OK"):
                        fails.append((res, "%s (%d values, block %d)" % (where, len(vals), blk)))
        out[c["name"]] = cells
    return fails, out, sorted(set(former))


# ---------------------------------------------------------------- K1
def stage_files(ctx, rng, gverif, gmodel, known_ids):
    cases = k1_cases(rng, ctx["tier"])
    os.makedirs(WDIR, exist_ok=True)
    lines = [spec_line(c, os.path.join(WDIR, c["id"] + ".parquet")) for c in cases]
    metas = [json.loads(x) for x in common.run_model(gmodel, "write", lines, timeout=1200)]
    send = []
    for c in cases:
        path = os.path.join(WDIR, c["id"] + ".parquet")
        stmts = ["describe read_parquet('%s')" % path,
                 "select * from parquet.file_metadata('%s')" % path,
                 "select * from parquet.rowgroup_metadata('%s')" % path,
                 "select * from parquet.column_metadata('%s')" % path]
        cfg = []
        for p in PARTS:
            for bs in BATCHES:
                stmts += ["set partitions to %d" % p, "set batch_size to %d" % bs, "select * from read_parquet('%s')" % path]
                cfg.append((bs, p, len(stmts) - 1))
        c["_cfg"], c["_path"] = cfg, path
        send.append({"id": c["id"], "mode": "threaded", "threads": 4, "stmts": stmts, "timeout_s": 60})
    real = common.run_harness(gverif, "sql", send, timeout=3000)
    viol, known, stats = [], {}, {"files": len(cases), "reads": 0, "reads_equal_spec": 0, "reads_equal_faithful_known": 0,
                                  "meta_rows": 0, "cells": 0}
    distinct = set()

    def replay_of(c, bs, p, extra):
        r = {"case": c["id"], "write_spec": spec_line(c, c["_path"]),
             "sql": ["set partitions to %d" % p, "set batch_size to %d" % bs, "select * from read_parquet('%s')" % c["_path"]],
             "how": "echo '<write_spec>' | .work/ocaml/pq/pq write ; then run the sql (gverif sql)"}
        r.update(extra)
        return r

    def fail_kind(res):
        if res is None:
            return None
        if "panic" in res:
            return "panic:" + res["panic"][:120]
        if "hang" in res or "timeout" in res:
            return "hang"
        if res.get("ok") is False:
            return "err:" + res.get("err", "")[:120]
        return None

    for c, m, r in zip(cases, metas, real):
        if "error" in m:
            viol.append({"what": "spec writer failed", "replay": {"case": c["id"], "error": m["error"]}, "no_input": False})
            continue
        exp_rows = [[col["cells"][i] for col in c["cols"]] for i in range(c["nrows"])]
        results = r.get("results")
        aborted = None
        if results is None:
            aborted = "abort:" + (r.get("stderr") or json.dumps(r))[-300:]
            results = []
        pred_cache = {}
        # ---- schema and metadata (statements 0..3)
        if len(results) > 0:
            d = results[0]
            want = [["S" + col["name"], "S" + col["ht"]] for col in c["cols"]]
            if not d.get("ok") or d.get("rows") != want:
                viol.append({"what": "column types differ from the schema the file declares",
                             "replay": {"case": c["id"], "write_spec": spec_line(c, c["_path"]), "sql": "describe read_parquet('%s')" % c["_path"],
                                        "want": want, "got": d.get("rows", d)}, "no_input": False})
        if len(results) > 3:
            fm, rm, cm = results[1], results[2], results[3]
            p = "S" + c["_path"]
            want_f = [[p, "I%d" % (2 if c["v2"] else 1), "I%d" % c["nrows"], "S" + c["created_by"], "I%d" % len(m["rgs"])]]
            want_r = [[p, "I%d" % g["rows"], "I%d" % len(g["chunks"]), "I%d" % g["bytes"], "I%d" % g["ordinal"]] for g in m["rgs"]]
            want_c = []
            for g in m["rgs"]:
                for ci, (ch, col) in enumerate(zip(g["chunks"], c["cols"])):
                    pt = {"i32": "INT32", "i64": "INT64", "i96": "INT96", "f32": "FLOAT", "f64": "DOUBLE", "bool": "BOOLEAN",
                          "bytes": "BYTE_ARRAY"}[col["type"]]
                    want_c.append([p, "I%d" % g["ordinal"], "I%d" % ci, "S" + pt, "I%d" % (1 if col["optional"] else 0), "I0",
                                   "I%d" % ch["start"], "I%d" % ch["num_values"], "I%d" % ch["size"], "I%d" % ch["size"],
                                   "I%d" % ch["data_off"]])
            for name, got, want in (("file_metadata", fm, want_f), ("rowgroup_metadata", rm, want_r), ("column_metadata", cm, want_c)):
                stats["meta_rows"] += len(want)
                if not got.get("ok") or got.get("rows") != want:
                    viol.append({"what": "parquet.%s differs from the footer" % name,
                                 "replay": {"case": c["id"], "write_spec": spec_line(c, c["_path"]),
                                            "sql": "select * from parquet.%s('%s')" % (name, c["_path"]),
                                            "want": want[:6], "got": got.get("rows", got)[:6] if isinstance(got.get("rows", None), list) else got},
                                 "no_input": False})
        # ---- the reads
        for (bs, p, si) in c["_cfg"]:
            res = results[si] if si < len(results) else None
            stats["reads"] += 1
            fk = fail_kind(res) if res is not None else (aborted or "not-run")
            got_rows = None
            if fk is None:
                got_rows = res["rows"]
                if p > 1:
                    got_rows = sorted(got_rows, key=lambda row: int(row[0][1:]) if row and row[0].startswith("I") else -1)
                if got_rows == exp_rows and not res.get("value_err"):
                    stats["reads_equal_spec"] += 1
                    stats["cells"] += len(exp_rows) * len(c["cols"])
                    distinct.add((tuple((col["tname"], col["enc"], col["optional"]) for col in c["cols"][1:]), c["v2"], bs, p,
                                  len(c["rgs"]), tuple(tuple(col["pages"]) for col in c["cols"][1:])))
                    continue
            # mismatch: a violation.  For the replay, say what the faithful model predicts and which repaired
            # defect class (findings/C10.json "fixed") the file exercises
            if bs not in pred_cache:
                pred_cache[bs] = predict(c, bs, gmodel)
            fails, prows, former = pred_cache[bs]
            matched = False
            if got_rows is not None and not fails:
                frows = [[prows.get(col["name"], col["cells"])[i] for col in c["cols"]] for i in range(c["nrows"])]
                matched = frows == got_rows
            first = None
            if got_rows is not None:
                for i, (a, b) in enumerate(zip(exp_rows, got_rows)):
                    if a != b:
                        first = {"row": i, "want": a, "got": b}
                        break
                if first is None:
                    first = {"want_rows": len(exp_rows), "got_rows": len(got_rows)}
            viol.append({"what": ("read_parquet result differs from the encoded table" if fk is None else "read_parquet fails on a valid file")
                         + (" (the file exercises the repaired defect class(es): %s)" % ", ".join(former) if former else ""),
                         "replay": replay_of(c, bs, p, {"failure": fk, "first_difference": first, "faithful_model_page_failures": fails[:4],
                                                        "matches_faithful_model": matched,
                                                        "exercises_repaired_defect_classes": former}),
                         "no_input": False})
            break   # one violation per file is enough
    return {"viol": viol, "known": known, "stats": stats, "distinct": len(distinct),
            "sample": {"write_spec": lines[0][:300], "sql": send[0]["stmts"][-3:], "rows0": real[0].get("results", [{}])[-1].get("rows", [])[:3] if real[0].get("results") else None}}


# ---------------------------------------------------------------- K2
def rand_reads(rng, total, over=False):
    out, left = [], total
    while left > 0:
        k = 1 + rng.below(min(left, rng.choice([1, 2, 3, 8, 9, 40, left])))
        out.append(k)
        left -= k
    if rng.chance(10):
        out.insert(rng.below(len(out) + 1), 0)
    if over:
        out.append(1 + rng.below(9))
    return out


def stage_decoders(ctx, rng, gvpq, gmodel, known_ids):
    n = 1500 if ctx["tier"] == "quick" else 12000
    enc_lines, plan = [], []
    for i in range(n):
        op = rng.choice(["unpack", "rle", "rle", "dbp", "dbp", "vlq", "lens"])
        if op == "vlq":
            v = rng.choice([0, 1, 127, 128, 300, 2 ** 32 - 1, 2 ** 63, 2 ** 64 - 1]) if rng.chance(50) else rng.next() >> rng.below(64)
            plan.append({"op": "vlq", "vals": [v]})
            enc_lines.append("enc_pack 0")   # placeholder, vlq bytes are made below from enc_rle header trick
            continue
        if op == "unpack":
            w = rng.below(65)
            t = rng.choice([x for x, b in (("u8", 8), ("i16", 16), ("u32", 32), ("u64", 64), ("i32", 32), ("i64", 64)) if b >= w] or ["u64"])
            cnt = 8 * rng.below(6) + rng.choice([0, 0, 8])
            vals = [rng.next() & ((1 << w) - 1) if not rng.chance(20) else ((1 << w) - 1) for _ in range(cnt)]
            plan.append({"op": "unpack", "w": w, "t": t, "vals": vals})
            enc_lines.append("enc_pack %d %s" % (w, " ".join(str(v) for v in vals)))
        elif op == "rle":
            w = rng.choice([0, 1, 1, 2, 3, 5, 8, 9, 13, 16, 20, 32, 33, 64])
            t = rng.choice([x for x, b in (("u8", 8), ("i16", 16), ("u32", 32), ("u64", 64)) if b >= w])
            cnt = rng.below(70)
            vals, cur = [], 0
            for _ in range(cnt):
                if not vals or rng.chance(40):
                    cur = rng.next() & ((1 << w) - 1)
                vals.append(cur)
            plan.append({"op": "rle", "w": w, "t": t, "vals": vals})
            enc_lines.append("enc_rle %d %d %d %s" % (w, rng.choice([1, 2, 3, 8, 1000]), rng.choice([1, 2, 3]), " ".join(str(v) for v in vals)))
        elif op == "dbp":
            bits = rng.choice([32, 64])
            cnt = rng.choice([0, 1, 2, 3, 5, 33, 34, 129, 130, 140]) if rng.chance(40) else rng.below(200)
            style = rng.below(4)
            vals, cur = [], rng.next() & ((1 << bits) - 1)
            for _ in range(cnt):
                if style == 0:
                    cur = rng.next() & ((1 << bits) - 1)
                elif style == 1:
                    cur = (cur + rng.below(7)) & ((1 << bits) - 1)
                elif style == 2:
                    cur = (cur + rng.below(1 << 20) - (1 << 19)) & ((1 << bits) - 1)
                vals.append(cur)
            blk, mbc = rng.choice([(128, 4), (128, 1), (128, 2), (256, 8), (256, 2)])
            plan.append({"op": "dbp", "bits": bits, "t": "i%d" % bits, "vals": vals, "blk": blk})
            enc_lines.append("enc_dbp %d %d %d %s" % (bits, blk, mbc, " ".join(str(v) for v in vals)))
        else:
            cnt = rng.choice([0, 1, 2, 32, 33, 34, 128, 129, 130, 257]) if rng.chance(50) else rng.below(150)
            vals = [rng.below(rng.choice([1, 4, 300, 70000])) for _ in range(cnt)]
            blk, mbc = rng.choice([(128, 4), (256, 2)])
            plan.append({"op": "lens", "vals": vals, "blk": blk, "tail": rng.below(6)})
            enc_lines.append("enc_dbp 32 %d %d %s" % (blk, mbc, " ".join(str(v) for v in vals)))
    hexes = common.run_model(gmodel, "decode", enc_lines, timeout=900)
    real_cases, model_lines = [], []
    for i, (pl, hx) in enumerate(zip(plan, hexes)):
        mut = rng.chance(15)
        if pl["op"] == "vlq":
            v = pl["vals"][0]
            bs = bytearray()
            while True:
                b = v & 0x7f
                v >>= 7
                if v:
                    bs.append(b | 0x80)
                else:
                    bs.append(b)
                    break
            if rng.chance(15):
                bs = bytearray([0x80 | rng.below(128) for _ in range(rng.choice([9, 10, 11]))]) + bytearray([rng.below(128)])
            if rng.chance(10):
                bs = bs[:-1]
            hx = bytes(bs).hex() + "".join("%02x" % rng.below(256) for _ in range(rng.below(3)))
            pl["spec"] = None
            real_cases.append({"id": i, "op": "vlq", "hex": hx})
            model_lines.append("vlq %s" % (hx or "-"))
            continue
        if mut and hx:
            b = bytearray(bytes.fromhex(hx))
            k = rng.below(3)
            if k == 0:
                b = b[:rng.below(len(b))]
            elif k == 1:
                b[rng.below(len(b))] ^= 1 << rng.below(8)
            else:
                b += bytes([rng.below(256) for _ in range(1 + rng.below(4))])
            hx = bytes(b).hex()
        pl["mut"] = mut
        total = len(pl["vals"])
        if pl["op"] == "lens":
            hx = hx + "ab" * pl["tail"]
            real_cases.append({"id": i, "op": "lens", "hex": hx})
            model_lines.append("lens %s" % (hx or "-"))
            continue
        reads = rand_reads(rng, total, over=rng.chance(8)) if total else [0]
        if rng.chance(25):
            reads = [total]
        pl["reads"] = reads
        rs = ",".join(str(r) for r in reads)
        if pl["op"] == "unpack":
            real_cases.append({"id": i, "op": "unpack", "t": pl["t"], "w": pl["w"], "hex": hx, "reads": reads})
            model_lines.append("unpack %d %d %s %s" % (int(pl["t"][1:]), pl["w"], hx or "-", rs))
        elif pl["op"] == "rle":
            real_cases.append({"id": i, "op": "rle", "t": pl["t"], "w": pl["w"], "hex": hx, "reads": reads})
            model_lines.append("rle %d %d %s %s" % (int(pl["t"][1:]), pl["w"], hx or "-", rs))
        else:
            real_cases.append({"id": i, "op": "dbp", "t": pl["t"], "hex": hx, "reads": reads})
            model_lines.append("dbp %d %s %s" % (pl["bits"], hx or "-", rs))
    real = common.run_harness(gvpq, [], real_cases, timeout=900)
    model = common.run_model(gmodel, "decode", model_lines, timeout=900)
    mism, viol, known = [], [], {}
    distinct = set()
    for pl, rc, r, mo in zip(plan, real_cases, real, model):
        ro = r.get("out", "ABORT")
        if pl["op"] == "lens":
            ro = ro  # "OK l1 l2 ; rest"
        if ro.strip() != mo.strip():
            mism.append({"case": rc, "real": r, "model": mo})
            continue
        distinct.add((pl["op"], pl.get("w"), pl.get("t"), len(pl["vals"]), tuple(pl.get("reads", [])), ro[:40]))
        # property level: an unmutated, model-encoded buffer must decode to the values, for every read split
        if pl["op"] in ("unpack", "rle", "dbp") and not pl.get("mut") and sum(pl["reads"]) == len(pl["vals"]):
            got = [int(x) for x in ro[2:].replace("|", " ").split()] if ro.startswith("OK") else None
            if got != pl["vals"]:
                nz = [x for x in pl["reads"] if x > 0]
                if pl["op"] == "dbp" and len(nz) >= 2 and "dbp-resume" in known_ids and ro.startswith("OK"):
                    known.setdefault("dbp-resume", {"n": 0, "example": "gv_pq dbp %s reads %s" % (rc["hex"][:60], pl["reads"])})["n"] += 1
                elif pl["op"] == "dbp" and len(pl["vals"]) == 1 and ro == "OOB" and "dbp-single-value-page" in known_ids:
                    known.setdefault("dbp-single-value-page", {"n": 0, "example": "gv_pq dbp %s" % rc["hex"]})["n"] += 1
                else:
                    viol.append({"what": "real %s decoder does not return the encoded values" % pl["op"],
                                 "replay": {"gv_pq_case": rc, "values": pl["vals"][:50], "real": ro[:300]}, "no_input": False})
        if pl["op"] == "lens" and not pl.get("mut"):
            want = "OK %s ; %d" % (" ".join(str(v) for v in pl["vals"]), pl["tail"])
            if " ".join(ro.split()) != " ".join(want.split()):
                nv = len(pl["vals"])
                if nv == 1 and "dbp-single-value-page" in known_ids:
                    known.setdefault("dbp-single-value-page", {"n": 0, "example": "gv_pq lens %s -> %s" % (rc["hex"], ro)})["n"] += 1
                elif nv > 1 and (nv - 1) % pl["blk"] == 0 and ro == "PANIC" and "delta-lengths-full-block" in known_ids:
                    known.setdefault("delta-lengths-full-block", {"n": 0, "example": "gv_pq lens (%d lengths, block %d) -> PANIC" % (nv, pl["blk"])})["n"] += 1
                else:
                    viol.append({"what": "real delta length prefix decoder does not return the encoded lengths",
                                 "replay": {"gv_pq_case": rc, "lengths": pl["vals"][:50], "real": ro[:300], "want": want[:300]}, "no_input": False})
    return {"cases": len(plan), "mismatches": mism, "viol": viol, "known": known, "distinct": len(distinct),

            "sample": {"real_case": real_cases[-1], "real": real[-1], "model": model[-1]}}


KNOWN_TEXT = {
    "dbp-resume": "DELTA_BINARY_PACKED page read across a batch boundary re-emits the previous value and drops the last (DeltaBinaryPackedValueDecoder::read starts every call with out[0] = prev_value)",
    "dbp-single-value-page": "DELTA_BINARY_PACKED / DELTA_LENGTH / DELTA_BYTE_ARRAY page with exactly one value: try_new loads a block that does not exist (read past the page, read_buffer.rs debug assertion)",
    "delta-lengths-full-block": "DELTA_LENGTH / DELTA_BYTE_ARRAY page whose value count is 1 + k * block_size: try_into_cursor indexes mini_block_bit_widths[mini_block_count] (panic)",
    "delta-bytearray-binary-utf8": "BYTE_ARRAY column without UTF8 annotation in DELTA_LENGTH / DELTA_BYTE_ARRAY encoding: verify_utf8 is hard-wired to true, non-UTF-8 bytes are rejected",
    "int96-before-epoch": "INT96 timestamp before 1970-01-01: `julian - UNIX_EPOCH_JULIAN` underflows u32 (panic with overflow checks)",
}


def run(ctx):
    t0 = time.time()
    rng = common.Rng(ctx["seed"])
    out = {"violations": [], "known": [], "assumptions": []}
    kf = common.known_findings()
    known_ids = set(k["id"] for k in kf.get("known", []) if k.get("property") == PID)
    gverif, _ = common.build_harness()
    gvpq, _ = common.build_harness(bin="gv_pq")
    pr = common.coq_props(PROPS)
    audit = [a for a in common.audit_sources() if "/Pq" in a or "C10" in a]
    obligations = pr["declared"]
    bad_assum = common.check_assumptions(pr) if pr["ok"] else []
    proof_broken = (not pr["ok"]) or bool(bad_assum) or bool(audit)
    discharged = 0 if proof_broken else len(obligations)
    gmodel = common.build_ocaml("pq")
    k2 = stage_decoders(ctx, rng, gvpq, gmodel, known_ids)
    k1 = stage_files(ctx, rng, gverif, gmodel, known_ids)
    out["violations"] += k1["viol"] + k2["viol"]
    for src in (k1["known"], k2["known"]):
        for kid, info in src.items():
            line = "%s: %s [%d occurrence(s); e.g. %s]" % (kid, KNOWN_TEXT.get(kid, ""), info["n"], info["example"])
            if not any(l.startswith(kid + ":") for l in out["known"]):
                out["known"].append(line)
    if k2["mismatches"]:
        # the faithful model no longer describes the decoders: look for a property-level failure first
        out["violations"].append({"what": "correspondence real decoders vs model/PqBits.v, PqDelta.v no longer holds (%d of %d cases)" % (len(k2["mismatches"]), k2["cases"]),
                                  "replay": {"first": k2["mismatches"][:3]}, "no_input": not (k1["viol"] or k2["viol"])})
    if proof_broken:
        out["violations"].append({"what": "theorem(s) in %s no longer check" % PROPS,
                                  "replay": {"failed_at": pr.get("failed_at"), "log_tail": pr["log"][-1500:] if not pr["ok"] else "",
                                             "assumption_problems": bad_assum, "audit": audit},
                                  "no_input": not (k1["viol"] or k2["viol"])})
    st = k1["stats"]
    out["coverage"] = {
        "obligations": len(obligations), "discharged": discharged,
        "checker_cmd": "cd coq && make props/C10.vo (Print Assumptions parsed; Admitted/Axiom audit)",
        "trusted_base": ["Coq 8.16.1 kernel (vm_compute in the closed witness lemmas)",
                         "extraction (ExtrOcamlBasic only) + ocaml/pq.ml parsing/printing",
                         "harness/src/bin/gv_pq.rs, harness/src/sql.rs; hook glaredb_ext_parquet::column::verif (add-only re-exports)",
                         "compression codecs (snappy, zstd, gzip, lz4, brotli: external crates) are NOT exercised: all generated files are uncompressed",
                         "modelled not verified: page_reader.rs / column_reader.rs / reader.rs control flow (page and batch slicing is reproduced in vlib/c10.py:page_reads for the faithful prediction), thrift.rs reader, schema/convert.rs (checked through DESCRIBE only)"],
        "theorems": obligations,
        "evaluations": st["reads"] + k2["cases"] + st["meta_rows"],
        "distinct_nontrivial": k1["distinct"] + k2["distinct"],
        "rule": "K1: every (file, batch size, partitions) read compared cell by cell with the table the spec encoder was given (order exact for 1 partition, by rid for 4); distinct = distinct (column type/encoding/optional, page version, batch size, partitions, row-group and page layout) among the reads that agree. K2: every decoder case compared real vs extracted model output string; distinct = distinct (op, width, type, count, read split, output prefix). K3: metadata function rows compared with the model's footer description.",
        "samples": [k1["sample"], k2["sample"]],
        "files": st["files"], "reads": st["reads"], "reads_equal_spec": st["reads_equal_spec"],
        "reads_equal_faithful_model_in_known_class": st["reads_equal_faithful_known"], "cells_compared": st["cells"],
        "metadata_rows_compared": st["meta_rows"], "decoder_cases": k2["cases"], "decoder_model_mismatches": len(k2["mismatches"]),
        "exhaustive": False,
    }
    out["assumptions"] = [
        "the harness is built with debug assertions and overflow checks: an unchecked cursor over-read or a usize/u32 underflow shows up as a panic; a release build would read out of bounds / wrap instead",
        "files are uncompressed, flat schema (no nested columns), one file per scan; FIXED_LEN_BYTE_ARRAY (only Float16 is accepted by the reader) and decimals are not generated",
        "no known finding is open for C10: every deviation from the encoded table is a violation; the replay names the repaired defect class (findings/C10.json fixed) a failing file exercises"]
    out["wall"] = time.time() - t0
    return out


def replay(ctx, payload):
    rp = payload.get("replay", payload)
    gverif, _ = common.build_harness()
    gmodel = common.build_ocaml("pq")
    if "write_spec" in rp:
        os.makedirs(WDIR, exist_ok=True)
        print(common.run_model(gmodel, "write", [rp["write_spec"]])[0][:300])
        sql = rp["sql"] if isinstance(rp["sql"], list) else [rp["sql"]]
        r = common.run_harness(gverif, "sql", [{"id": "replay", "mode": "threaded", "threads": 4, "stmts": sql, "timeout_s": 60}])
        print(json.dumps(r[0])[:3000])
        return 0
    if "gv_pq_case" in rp:
        gvpq, _ = common.build_harness(bin="gv_pq")
        print(common.run_harness(gvpq, [], [rp["gv_pq_case"]]))
        return 0
    print(json.dumps(rp)[:2000])
    return 0
