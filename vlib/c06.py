"""C06 — Joins return exactly the defined pairs and unmatched rows."""
from . import sqlprop, sqlgen

PID = "C06"


def make_work(rng, tier):
    n = 150 if tier == "quick" else 2500
    work = []
    for i in range(n):
        tables = sqlgen.make_db(rng, max_rows=rng.choice([5, 17, 40, 90]))
        g = sqlgen.Gen(rng, tables, {"max_depth": 2, "groups": rng.chance(20), "setops": False, "ctes": False,
                                     "case": rng.chance(30), "order": rng.chance(20)})
        runs = []
        for _ in range(3):
            q = g.query()
            for hj in (True, False):
                runs.append((q, {"partitions": rng.choice([1, 2, 4]), "enable_hash_joins": hj,
                                 "batch_size": rng.choice([1, 2, 7, 2048]), "enable_optimizer": bool(rng.below(2))}))
        work.append({"id": "c06-%d" % i, "tables": tables, "runs": runs, "mode": "det", "det_partitions": 2,
                     "sched": {"kind": rng.choice(["fifo", "lifo"]), "seed": 1}})
    from . import sqlfam
    work += sqlfam.using_family(rng, 2 if tier == 'quick' else 12, 'c06')
    return work


def run(ctx):
    return sqlprop.run_property(
        ctx, PID, "props/C06.v", make_work,
        "hash join and nested-loop join models refine the declarative join for INNER/LEFT/RIGHT/SEMI and MARK (hence ANTI), for any hash function respecting key equality, any directory size, insertion order, partition/batch split; NULL keys match nothing; unmatched preserved rows appear exactly once; strided drain covers every build row once; hash join and nested-loop join agree",
        "join-heavy queries (1-3 FROM items; CROSS/INNER/LEFT/RIGHT joins and comma joins; ON conditions with one or several equalities, equality plus inequality, inequality only, one-sided and mixed-side predicates; EXISTS/IN subqueries compiled to semi/anti/mark joins) over tables with NULL keys, duplicate keys, empty sides and many-to-many fan-out beyond small batch sizes; every query with hash joins on AND off; distinct = distinct (SQL text, config)")


def replay(ctx, payload):
    from . import sqlrun
    return sqlrun.replay(ctx, payload)
