"""C09 — Correlated subqueries, CTEs and views mean what nested evaluation means."""
from . import sqlprop, sqlgen

PID = "C09"


class SubGen(sqlgen.Gen):
    """more subqueries, correlation and CTEs than the general stream"""
    pass


def make_work(rng, tier):
    n = 300 if tier == "quick" else 3000
    work = []
    for i in range(n):
        tables = sqlgen.make_db(rng, max_rows=rng.choice([6, 15, 30]))
        g = SubGen(rng, tables, {"max_depth": 4, "groups": rng.chance(50), "setops": rng.chance(20), "ctes": True,
                               "views": i % 3 == 0, "lateral": i % 3 == 1, "quantified_chance": 50})
        runs = []
        tries = 0
        while len(runs) < 4 and tries < 40:
            tries += 1
            q = g.query()
            if not ({"correlated", "exists", "in_sub", "scalar_sub", "cte", "cte_def", "view", "lateral"} & q.classes):
                continue
            runs.append((q, {"partitions": rng.choice([1, 2, 4]), "enable_optimizer": bool(rng.below(2))}))
        work.append({"id": "c09-%d" % i, "tables": tables, "runs": runs, "prelude": list(g.prelude), "mode": "det", "det_partitions": 2,
                     "sched": {"kind": "fifo", "seed": 1}})
    return work


def run(ctx):
    return sqlprop.run_property(
        ctx, PID, "props/C09.v", make_work,
        "magic-set identity with the null-safe join back (plain = refuted), pushing the dependent join through filter/projection/cross product/distinct, EXISTS as semi/anti/mark join, scalar aggregate decorrelation (count refuted), IN as two-valued mark join (refuted with NULLs), CTE inlining and materialization scans agree",
        "queries with scalar, EXISTS and IN subqueries (correlated through filters and projections, NULL and duplicate outer values, empty subquery results), CTEs (plain and MATERIALIZED) whose reference semantics is the inlined definition; distinct = distinct (SQL text, config)")


def replay(ctx, payload):
    from . import sqlrun
    return sqlrun.replay(ctx, payload)
