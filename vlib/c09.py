"""C09 — Correlated subqueries, CTEs and views mean what nested evaluation means."""
from . import sqlprop, sqlgen

PID = "C09"


class SubGen(sqlgen.Gen):
    """more subqueries, correlation and CTEs than the general stream"""
    pass


def make_work(rng, tier):
    n = 300 if tier == "quick" else 3000
    work = []
    for i in range(n):
        tables = sqlgen.make_db(rng, max_rows=rng.choice([6, 15, 30]))
        g = SubGen(rng, tables, {"max_depth": 4, "groups": rng.chance(50), "setops": rng.chance(20), "ctes": True,
                               "views": i % 3 == 0, "lateral": i % 3 == 1, "quantified_chance": 50, "grouped_sub_chance": 45})
        runs = []
        tries = 0
        while len(runs) < 4 and tries < 40:
            tries += 1
            q = g.query()
            if not ({"correlated", "exists", "in_sub", "scalar_sub", "cte", "cte_def", "view", "lateral"} & q.classes):
                continue
            runs.append((q, {"partitions": rng.choice([1, 2, 4]), "enable_optimizer": bool(rng.below(2)),
                             "batch_size": rng.choice([1, 2, 4, 2048, 2048])}))
        work.append({"id": "c09-%d" % i, "tables": tables, "runs": runs, "prelude": list(g.prelude), "mode": "det", "det_partitions": 2,
                     "sched": {"kind": "fifo", "seed": 1}})
    # quantified-comparison matrix: every operator x ANY/ALL over small integer domains with NULLs, duplicates
    # and ties at the extremes (the ALL form is planned as NOT (negated-op ANY): every entry of the negation
    # table is exercised with tie and non-tie values), uncorrelated and correlated, in WHERE and in the select list
    ndb = 2 if tier == "quick" else 12
    for i in range(ndb):
        def rows(n):
            return [[rng.choice(["N", "I1", "I2", "I2", "I3", "I3"]), rng.choice(["I0", "I1"])] for _ in range(n)]
        tables = [("t0", [("c0", "i32"), ("c1", "i32")], rows(rng.choice([4, 7]))),
                  ("t1", [("c0", "i32"), ("c1", "i32")], rows(rng.choice([0, 3, 6])))]
        runs = []
        for kind in ("any", "all"):
            for op, sym in (("eq", "="), ("ne", "<>"), ("lt", "<"), ("le", "<="), ("gt", ">"), ("ge", ">=")):
                for corr in (False, True):
                    wsql = " WHERE (x2.c1 = x1.c1)" if corr else ""
                    wsx = "(cmp eq (col 0 1) (col 1 1))" if corr else "-"
                    sub_sql = "SELECT x2.c0 AS o0 FROM t1 AS x2%s" % wsql
                    sub_sx = "(select (fq (table 1)) %s - - ((col 0 0)) 0)" % wsx
                    qx = "(quant %s %s (col 0 0) %s)" % (kind, op, sub_sx)
                    cls = {"quantified", "in_sub", "quant_matrix"} | ({"correlated"} if corr else set())
                    q1 = sqlgen.Q("SELECT x1.c0 AS r0, x1.c1 AS r1 FROM t0 AS x1 WHERE (x1.c0 %s %s (%s))" % (sym, kind.upper(), sub_sql),
                                  "(select (fq (table 0)) %s - - ((col 0 0) (col 0 1)) 0)" % qx, ["i32", "i32"], ["r0", "r1"], set(cls))
                    q2 = sqlgen.Q("SELECT x1.c0 AS r0, (x1.c0 %s %s (%s)) AS r1 FROM t0 AS x1" % (sym, kind.upper(), sub_sql),
                                  "(select (fq (table 0)) - - - ((col 0 0) %s) 0)" % qx, ["i32", "bool"], ["r0", "r1"], set(cls))
                    for q in (q1, q2):
                        runs.append((q, {"partitions": rng.choice([1, 2]), "enable_optimizer": bool(rng.below(2))}))
        work.append({"id": "c09-quant-%d" % i, "tables": tables, "runs": runs, "mode": "det", "det_partitions": 2,
                     "sched": {"kind": "fifo", "seed": 1}})
    # directed family: one CTE (plain and MATERIALIZED) referenced from two different blocks with a filter on one
    # reference only (what one reference filters must not change what the other reference sees)
    ncte = 2 if tier == "quick" else 12
    for i in range(ncte):
        rows = [["I%d" % rng.choice([1, 2, 3, 4, 5]), rng.choice(["I0", "I1", "N"])] for _ in range(rng.choice([5, 8]))]
        tables = [("t0", [("c0", "i32"), ("c1", "i32")], rows)]
        C = "(select (fq (table 0)) - - - ((col 0 0) (col 0 1)) 0)"
        runs = []
        for mat in (True, False):
            w = "WITH c AS %s(SELECT t.c0 AS o0, t.c1 AS o1 FROM t0 AS t) " % ("MATERIALIZED " if mat else "")
            k = rng.choice([1, 2, 3])
            k2 = rng.choice([3, 4, 5])
            qs = [
                (w + "SELECT x.o0 AS r0, (SELECT count(*) AS o0 FROM c AS y) AS r1 FROM c AS x WHERE (x.o0 <= %d)" % k,
                 "(select (fq %s) (cmp le (col 0 0) (const (i %d))) - - ((col 0 0) (scalar (select (fq %s) - (() ((countstar 0 (const N)))) - ((col 0 0)) 0))) 0)" % (C, k, C),
                 ["i32", "i64"]),
                (w + "SELECT x.o0 AS r0, x.o1 AS r1 FROM c AS x WHERE (x.o0 <= %d) UNION ALL SELECT y.o0 AS r0, y.o1 AS r1 FROM c AS y WHERE (y.o0 >= %d)" % (k, k2),
                 "(union 1 (select (fq %s) (cmp le (col 0 0) (const (i %d))) - - ((col 0 0) (col 0 1)) 0) (select (fq %s) (cmp ge (col 0 0) (const (i %d))) - - ((col 0 0) (col 0 1)) 0))" % (C, k, C, k2),
                 ["i32", "i32"]),
                (w + "SELECT x.o0 AS r0, x.o1 AS r1 FROM c AS x WHERE ((x.o0 <= %d) AND (EXISTS (SELECT y.o0 AS o0 FROM c AS y WHERE (y.o0 = (x.o0 + 1)))))" % k2,
                 "(select (fq %s) (and (cmp le (col 0 0) (const (i %d))) (exists 0 (select (fq %s) (cmp eq (col 0 0) (arith add 32 (col 1 0) (const (i 1)))) - - ((col 0 0)) 0))) - - ((col 0 0) (col 0 1)) 0)" % (C, k2, C),
                 ["i32", "i32"]),
                (w + "SELECT x.o0 AS r0, (SELECT max(y.o0) AS o0 FROM c AS y WHERE (y.o1 = x.o1)) AS r1 FROM c AS x WHERE (x.o0 >= %d)" % k,
                 "(select (fq %s) (cmp ge (col 0 0) (const (i %d))) - - ((col 0 0) (scalar (select (fq %s) (cmp eq (col 0 1) (col 1 1)) (() ((max 0 (col 0 0)))) - ((col 0 0)) 0))) 0)" % (C, k, C),
                 ["i32", "i32"]),
            ]
            for sql, sx, tys in qs:
                q = sqlgen.Q(sql, sx, tys, ["r0", "r1"], {"cte", "cte_def", "cte_twice"} | ({"cte_materialized"} if mat else set()))
                for opt in (True, False):
                    runs.append((q, {"partitions": rng.choice([1, 2]), "enable_optimizer": opt}))
        # correlated subqueries whose aggregate has its own GROUP BY (the decorrelation must add the correlated
        # columns to the subquery's grouping sets after its own keys)
        T = "(fq (table 0))"
        gq = [
            ("SELECT x.c0 AS r0, x.c1 AS r1 FROM t0 AS x WHERE (EXISTS (SELECT y.c1 AS o0, count(*) AS o1 FROM t0 AS y WHERE (y.c0 = x.c0) GROUP BY y.c1 HAVING count(*) > 1))",
             "(select %s (exists 0 (select %s (cmp eq (col 0 0) (col 1 0)) (((col 0 1)) ((countstar 0 (const N)))) (cmp gt (col 0 1) (const (i 1))) ((col 0 0) (col 0 1)) 0)) - - ((col 0 0) (col 0 1)) 0)" % (T, T),
             ["i32", "i32"]),
            ("SELECT x.c0 AS r0, (SELECT max(z.o0) AS o0 FROM (SELECT sum(y.c0) AS o0 FROM t0 AS y WHERE (y.c1 = x.c1) GROUP BY y.c0) AS z) AS r1 FROM t0 AS x",
             "(select %s - - - ((col 0 0) (scalar (select (fq (select %s (cmp eq (col 0 1) (col 1 1)) (((col 0 0)) ((sum 0 (col 0 0)))) - ((col 0 1)) 0)) - (() ((max 0 (col 0 0)))) - ((col 0 0)) 0))) 0)" % (T, T),
             ["i32", "i64"]),
        ]
        for sql, sx, tys in gq:
            q = sqlgen.Q(sql, sx, tys, ["r0", "r1"], {"correlated", "grouped_sub"})
            for opt in (True, False):
                for bs in (2, 2048):
                    runs.append((q, {"partitions": rng.choice([1, 2]), "enable_optimizer": opt, "batch_size": bs}))
        work.append({"id": "c09-cte2-%d" % i, "tables": tables, "runs": runs, "mode": "det", "det_partitions": 2,
                     "sched": {"kind": "fifo", "seed": 1}})
    return work


def run(ctx):
    return sqlprop.run_property(
        ctx, PID, "props/C09.v", make_work,
        "magic-set identity with the null-safe join back (plain = refuted), pushing the dependent join through filter/projection/cross product/distinct, EXISTS as semi/anti/mark join, scalar aggregate decorrelation (count refuted), IN as two-valued mark join (refuted with NULLs), CTE inlining and materialization scans agree",
        "queries with scalar, EXISTS and IN subqueries (correlated through filters and projections, NULL and duplicate outer values, empty subquery results), CTEs (plain and MATERIALIZED) whose reference semantics is the inlined definition; distinct = distinct (SQL text, config)")


def replay(ctx, payload):
    from . import sqlrun
    return sqlrun.replay(ctx, payload)
