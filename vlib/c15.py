"""C15 — Every statement text yields a result or an error; the session survives.   Level: PARTIAL.

Proof part (coq/props/C15.v): error atomicity of the session state machine (model/Session.v), clean replacement of the
unnamed prepared statement / portal, unboundedness of the parser's native recursion.
Search part (this module; the universally quantified "no input panics, aborts or hangs" is a SEARCH, not a proof):
statement fuzz through `gverif sql` (mode det: panics caught per statement, hangs detected by the scheduler; a
threaded subset), one session per case.  Every test statement is followed by three probes in the SAME session:
  SELECT 1 / SELECT count(*) FROM probe_t (temp table created first) / SHOW batch_size (set to 77 first).
After a failed statement the probes must answer and show the unchanged state (= visible of model/Session.v after
exec .. (Some fail_point)); after a successful one they must answer.
Outcome classes rows | error | panic | abort | timeout; the last three are violations unless inside a narrow class of
findings/C15.json."""
import json, os, re, time
from . import common, sqlgen, gen
from . import c19 as fault

PID = "C15"
PROPS = "props/C15.v"
PER_CASE = 6
PROBES = ["select 1", "select count(*) from probe_t", "show batch_size"]
SETUP = ["create temp table probe_t (a int)", "insert into probe_t values (1), (2), (3)", "set batch_size to 77"]
DEFAULT_CFG = (77, 2)
BATCH_SIZES = [1, 2, 3, 77, 2048]
PARTITIONS = [1, 4]


def setup_for(cfg):
    bs, parts = cfg
    return ["set partitions to %d" % parts, "create temp table probe_t (a int)", "insert into probe_t values (1), (2), (3)",
            "set batch_size to %d" % bs]


def cfg_of(chunk):
    t = chunk[0]
    return t[2] if len(t) > 2 and t[2] else DEFAULT_CFG
KNOWN_CRASH_DEPTH = 3000

TOKEN_RE = re.compile(r"'(?:[^']|'')*'|\"[^\"]*\"|\d+\.\d+|\d+|[A-Za-z_][A-Za-z_0-9]*|<>|<=|>=|!=|\|\||::|[^\sA-Za-z_0-9]")
KEYWORDS = ["select", "from", "where", "group", "by", "having", "order", "limit", "offset", "join", "on", "left", "union", "all", "as",
            "case", "when", "then", "else", "end", "in", "exists", "not", "and", "or", "null", "with", "distinct", "values", "insert",
            "into", "create", "temp", "table", "drop", "set", "to", "cast", "is", "between", "like", "lateral", "cross", "full", "outer"]


def tokens(sql):
    return TOKEN_RE.findall(sql)


def untok(ts):
    return " ".join(ts)


def mutate(rng, sql):
    ts = tokens(sql)
    if not ts:
        return sql + "("
    k = rng.below(10)
    i = rng.below(len(ts))
    if k == 0:
        del ts[i]
    elif k == 1:
        ts.insert(i, ts[i])
    elif k == 2 and len(ts) > 1:
        j = min(len(ts) - 1, i + 1)
        ts[i], ts[j] = ts[j], ts[i]
    elif k == 3:
        lits = [j for j, t in enumerate(ts) if t[0].isdigit() or t[0] == "'"]
        if lits:
            j = rng.choice(lits)
            ts[j] = rng.choice(["9223372036854775807", "-9223372036854775808", "99999999999999999999999999", "0", "-1", "'x'", "''", "null",
                                "1e400", "0.0000000000000000000000000000000000000001", "'é中'", "true", "1.5", "2147483648"])
        else:
            ts.insert(i, "null")
    elif k == 4:
        ts.insert(i, rng.choice(["(", ")", "(", ")", "((", "))"]))
    elif k == 5:
        ps = [j for j, t in enumerate(ts) if t in "()"]
        if ps:
            del ts[rng.choice(ps)]
        else:
            ts.append(")")
    elif k == 6:
        ts[i] = rng.choice(KEYWORDS)
    elif k == 7:
        ts = ts[:i]
    elif k == 8:
        ts.insert(i, rng.choice([",", ";", ".", "*", "=", "'", "\"", "--", "/*", "||", "::", "[", "]", "$1", "?", "\\"]))
    else:
        j = rng.below(len(ts))
        ts[i], ts[j] = ts[j], ts[i]
    return untok(ts)


def soup(rng):
    pool = ["select", " ", "(", ")", "'", "\"", ",", "1", "a", "\u0000", "\u0001", "\n", "\t", "\\", ";", "--", "/*", "*/", "é", "中", "\U0001f600",
            "�", "‮", "%", "_", "$", "?", "::", "||", "e", ".", "-", "+", "from", " ", "\x7f", "\x1b", "0x", "''"]
    return "".join(rng.choice(pool) for _ in range(1 + rng.below(60)))


def nested_parens(n, inner="1"):
    return "select " + "(" * n + inner + ")" * n


def directed():
    """(label, sql) statements chosen by hand: ill-typed, unsupported, run-time failures on the k-th row, long, deep"""
    d = []
    add = lambda l, s: d.append((l, s))
    for s in ["select 1 + 'a'", "select sum('x')", "select abs('q')", "select * from nosuch", "select nosuch from probe_t", "select a from probe_t group by",
              "select a, count(*) from probe_t", "select 1 from probe_t where a", "select cast('x' as int)", "select cast(1 as nosuchtype)",
              "select a.b.c.d.e from probe_t", "select * from probe_t p1 join probe_t p2 on p1.a = p3.a", "select count(*) over () from probe_t",
              "select 1 limit -1", "select 1 limit 'a'", "select 1 offset 1", "select * from generate_series(1, 3) g(a, b, c)", "select (select a from probe_t)",
              "select a from probe_t order by 7", "select a from probe_t union select a, a from probe_t", "values (1), (1, 2)", "select 1 as a, 2 as a order by a"]:
        add("ill-typed", s)
    for s in ["create index i on probe_t (a)", "alter table probe_t add column b int", "update probe_t set a = 1", "delete from probe_t", "merge into probe_t using x on true",
              "grant all on probe_t to x", "begin", "commit", "rollback", "vacuum", "create table perm_t (a int)", "create view v as select 1", "copy probe_t to 'x.csv'",
              "prepare p as select 1", "execute p", "truncate probe_t", "create function f() returns int", "analyze", "checkpoint", "pragma x", "attach 'x' as y",
              "detach database x", "use x", "explain select 1", "explain analyze select 1", "describe probe_t", "show tables", "show nosuch", "show all", "set nosuch to 1",
              "set batch_size to 'abc'", "set batch_size to -5", "set batch_size to 0", "set batch_size to 99999999999999999999", "reset nosuch", "set partitions to 0",
              "set partitions to -1", "drop table nosuch", "drop table if exists nosuch", "create temp table probe_t (a int)", "create temp table dup_c (a int, a int)",
              "create temp table (a int)", "insert into probe_t values ('x')", "insert into probe_t values (1, 2)", "insert into nosuch values (1)", "select 1; select 2", ";", "", "   ",
              "-- only a comment", "/* open comment", "select 'unterminated", "select \"unterminated", "select 1 /* nested /* c */ */"]:
        add("unsupported", s)
    # failing at run time on the k-th row
    for k in (1, 7, 2048, 5000):
        add("runtime-kth", "select cast(case when a = %d then 'x' else '1' end as int) from generate_series(1, %d) g(a)" % (k, k + 10))
        add("runtime-kth", "select sum(cast(case when a = %d then 'x' else '1' end as int)) from generate_series(1, %d) g(a)" % (k, k + 10))
    add("runtime-kth-ctas", "create temp table ctas_t as select cast(case when a = 7 then 'x' else '1' end as int) as c from generate_series(1, 10) g(a)")
    add("runtime-kth-insert", "insert into probe_t select cast(case when a = 7 then 'x' else '1' end as int) from generate_series(1, 10) g(a)")
    add("runtime", "select a / (a - 2) from probe_t")
    add("runtime", "select cast('127' as tinyint) + cast('1' as tinyint)")
    add("runtime", "select cast('5' as int) / cast('0' as int)")
    add("runtime", "select cast('-128' as tinyint) / cast('-1' as tinyint)")
    add("runtime", "select cast('-128' as tinyint) % cast('-1' as tinyint)")
    add("runtime", "select - cast('-128' as tinyint)")
    add("runtime", "select 9223372036854775807 + 1")
    add("runtime", "select abs(cast('-128' as tinyint))")
    add("runtime", "select repeat('x', 2000000000)")
    add("runtime", "select lpad('x', 2000000000, 'y')")
    add("runtime", "select split_part('a,b', ',', -9223372036854775808)")          # repaired 9a26b86c9: a panic here is a violation again
    add("runtime", "select a from (select [1, 2] as a union all select [0]) s order by a")   # repaired 59d348515 (not-implemented error)
    add("runtime", "select * from generate_series(1, 10, 0)")
    add("runtime", "select substring('hello', 0, 2)")
    add("runtime", "select substring('hello', -9223372036854775808, 9223372036854775807)")
    add("optimizer", "with c as (select a from generate_series(1, 3) g(a)) select * from c x join c y on x.a = y.a")
    add("optimizer", "with c as materialized (select a from probe_t) select * from c x join c y on x.a = y.a join c z on y.a = z.a")
    # long
    add("long", "select " + " + ".join(["1"] * 400))
    add("long", "select " + ", ".join(["1"] * 3000))
    add("long", "select 1 where 1 in (" + ", ".join(str(i) for i in range(3000)) + ")")
    add("long", "select '" + "x" * 1000000 + "'")
    add("long", "select 1" + " " * 200000)
    add("long", "select " + "a" * 100000 + " from probe_t")
    add("long", " union all ".join(["select 1"] * 150))
    add("long", "select * from probe_t where " + " and ".join(["a = %d" % i for i in range(150)]))   # planning is superlinear: 300 conjuncts take 5 s (0.5 s optimizer off)
    add("long", "select * from probe_t where " + " or ".join(["a = %d" % i for i in range(150)]))
    add("long", "values " + ", ".join("(%d)" % i for i in range(5000)))
    add("long", "select " + "-" * 300 + "1")
    add("long", "select " + "not " * 300 + "true")
    # deep, below the known crash depth
    for n in (10, 100, 250):
        add("deep", nested_parens(n))
    add("deep", "select " + "abs(" * 100 + "1" + ")" * 100)
    add("deep", "select " + "case when true then " * 60 + "1" + " end" * 60)
    sub = "select a from probe_t"
    for _ in range(25):
        sub = "select a from (%s) s" % sub
    add("deep", sub)
    sub = "1"
    for _ in range(25):
        sub = "(select %s)" % sub
    add("deep", "select " + sub)
    sub = "select 1 as a"
    for _ in range(25):
        sub = "select a from (%s) s where exists (select 1)" % sub
    add("deep", sub)
    add("deep", "select " + "[" * 50 + "1" + "]" * 50)
    add("deep", "with " + ", ".join("c%d as (select * from %s)" % (i, "probe_t" if i == 0 else "c%d" % (i - 1)) for i in range(40)) + " select * from c39")
    return d


EXTRA_FUNCTIONS = ["unnest", "grouping", "coalesce", "nullif", "greatest", "least", "cast", "try_cast", "extract", "position", "now", "current_date",
                   "current_timestamp", "row", "array", "struct", "list", "exists", "any", "all", "if", "ifnull", "typeof", "nosuchfunction"]
_FUNCS = {}


def function_names(gverif):
    """every function the engine lists (scalar, aggregate, table; extension schemas qualified) + the special-cased names"""
    if "names" not in _FUNCS:
        r = common.run_harness(gverif, "sql", [{"id": "lf", "mode": "det", "timeout_s": 60, "stmts": [
            "select distinct schema_name, function_name, function_type from list_functions() order by 3, 1, 2"]}])[0]
        rows = (r.get("results") or [{}])[0].get("rows") or []
        names = []
        for sch, fn, ty in rows:
            sch, fn, ty = sch[1:], fn[1:], ty[1:]
            if not re.match(r"^[A-Za-z_][A-Za-z_0-9]*$", fn):
                continue        # operator symbols: reached through the expression generators
            names.append(((sch + "." if sch != "default" else "") + fn, ty))
        names += [(n, "special") for n in EXTRA_FUNCTIONS if n not in [x[0] for x in names]]
        _FUNCS["names"] = names
        _FUNCS["listed"] = len(rows)
        r = common.run_harness(gverif, "sql", [{"id": "le", "mode": "det", "timeout_s": 60, "stmts": [
            "select distinct example from list_functions() where example is not null order by 1"]}])[0]
        _FUNCS["examples"] = [x[0][1:] for x in ((r.get("results") or [{}])[0].get("rows") or []) if x[0].startswith("S") and "\n" not in x[0]]
    return _FUNCS["names"]


ARG_KINDS = {"null": ["NULL"], "int": ["1", "0", "-1", "2"], "text": ["'a'", "''", "'%'", "'1'"], "bool": ["true", "false"],
             "list": ["[1, 2]", "[]", "['a']", "[NULL]"], "float": ["1.5"], "col": ["a"], "star": ["*"]}


def function_calls(rng, tier):
    gverif = _FUNCS.get("gverif")
    if gverif is None:
        return []
    out = []
    quick = tier == "quick"
    kinds = list(ARG_KINDS)
    for name, ty in function_names(gverif):
        argsets = []
        for k in range(4):
            sets = [[rng.choice(ARG_KINDS[rng.choice(kinds[:6])]) for _ in range(k)]]
            if not quick:
                for kind in ("null", "int", "text", "bool", "list"):
                    sets.append([rng.choice(ARG_KINDS[kind]) for _ in range(k)])
            elif k > 0 and rng.chance(50):
                kind = rng.choice(["null", "int", "text", "list"])
                sets.append([rng.choice(ARG_KINDS[kind]) for _ in range(k)])
            argsets += sets
        argsets.append(["*"])
        if not quick:
            argsets += [["a"], ["a", "a"], ["*", "1"]]
        for args in argsets:
            call = "%s(%s)" % (name, ", ".join(args))
            usecol = any(x in ("a", "*") for x in args)
            out.append(("function-select", "select %s%s" % (call, " from probe_t" if usecol or rng.chance(30) else "")))
        # contexts and modifiers on a sample of the argument lists (the documented examples follow after the loop)
        ctx_sets = argsets if not quick else [argsets[0], rng.choice(argsets), rng.choice(argsets)]
        for args in ctx_sets:
            a = ", ".join(args)
            forms = ["select 1 from probe_t where %s(%s)" % (name, a), "select * from %s(%s)" % (name, a),
                     "select %s(distinct %s) from probe_t" % (name, a), "select %s(%s) filter (where a > 1) from probe_t" % (name, a),
                     "select %s(%s) over () from probe_t" % (name, a), "select a from probe_t group by a having %s(%s)" % (name, a),
                     "select * from probe_t, %s(%s) f" % (name, a), "select a from probe_t order by %s(%s)" % (name, a)]
            picks = forms if not quick else rng.shuffle(forms)[:3]
            for f in picks:
                out.append(("function-context", f))
    # the example the engine documents for each function: a well-typed call of every one of them
    for ex in _FUNCS.get("examples") or []:
        out.append(("function-example", ex if re.match(r"\s*(select|with|values)\b", ex, re.I) else "select " + ex))
    return out


def values_stream():
    big = ", ".join("(%d, 'v%d')" % (i, i % 7) for i in range(300))
    return ["select * from (values (1), (2), (3)) v(a)", "values (1, 'a'), (2, 'b'), (3, 'c'), (4, 'd'), (5, 'e')", "select * from (values (1)) v",
            "select count(*), sum(a) from (values (1), (2), (3), (4), (5), (6), (7)) v(a)", "select * from (values %s) v(a, b)" % big,
            "select b, count(*) from (values %s) v(a, b) group by b" % big, "select * from (values %s) v(a, b) order by a desc limit 5" % big,
            "select * from (values (1), (2)) x(a), (values (3), (4), (5)) y(b)", "select * from (values (1), (2), (3)) x(a) join (values (2), (3), (4)) y(b) on a = b",
            "select * from (values (1), (2)) v union all select * from (values (3), (4), (5)) w", "select * from (values (1), (NULL), (3)) v(a) where a is not null",
            "insert into probe_t values (4), (5), (6), (7), (8)", "insert into probe_t select * from (values (9), (10), (11)) v",
            "create temp table v_t as select * from (values (1, 'x'), (2, 'y'), (3, 'z'), (4, 'w'), (5, 'v')) v(a, b)",
            "create temp table g_t as select a, a * 2 as b from generate_series(1, 9) g(a)", "create temp table e_t (a int, b text)",
            "select * from generate_series(1, 7)", "select * from probe_t p1, probe_t p2", "select a, (select count(*) from (values (1), (2), (3)) v) from probe_t",
            "select * from (values (1), (2), (3)) v(a) where a in (select a from probe_t)", "select distinct a from (values (1), (1), (2), (2), (3)) v(a)",
            "select * from (values (1), (2), (3), (4), (5)) v(a) limit 2 offset 2"]


def corpus(rng, tier):
    """valid statements of the other checks' generators; returns (setup statements, [sql])"""
    tables = sqlgen.make_db(rng, ntables=2, max_rows=9)
    g = sqlgen.Gen(rng, tables, {"max_depth": 2})
    qs = []
    n = 60 if tier == "quick" else 600
    for _ in range(n):
        try:
            q = g.query()
        except Exception:
            continue
        if g.prelude:
            g.prelude = []
            continue
        qs.append(q.sql)
    return sqlgen.setup_stmts(tables), qs


def build_cases(rng, tier):
    setup_db, valid = corpus(rng, tier)
    tests = [("valid", s) for s in valid]
    nm = 420 if tier == "quick" else 8000
    pool = valid + [s for _, s in directed() if len(s) < 400]
    for _ in range(nm):
        s = rng.choice(pool)
        for _ in range(1 + rng.below(3)):
            s = mutate(rng, s)
        tests.append(("mutated", s))
    for _ in range(60 if tier == "quick" else 1500):
        tests.append(("soup", soup(rng)))
    tests += directed()
    # every function name x arities x argument kinds x contexts
    tests += function_calls(rng, tier)
    # the valid stream and a VALUES / INSERT / CTAS heavy stream under small and large batch sizes, 1 and 4 partitions
    allcfg = [(bs, p) for bs in BATCH_SIZES for p in PARTITIONS]
    for i, sql in enumerate(valid):
        picks = allcfg if tier != "quick" else [allcfg[(2 * i) % len(allcfg)], (rng.choice([1, 2, 3]), rng.choice(PARTITIONS))]
        for cfg in picks:
            tests.append(("valid-matrix", sql, cfg))
    for cfg in allcfg:
        for sql in values_stream():
            tests.append(("values-matrix", sql, cfg))
    return setup_db, tests


def make_case(cid, setup_db, chunk, mode):
    cfg = cfg_of(chunk)
    stmts = setup_for(cfg) + list(setup_db)
    pos = []
    for (label, sql) in [t[:2] for t in chunk]:
        pos.append(len(stmts))
        stmts.append(sql)
        stmts += PROBES
        if label == "runtime-kth-ctas":
            stmts.append("select count(*) from ctas_t")
    case = {"id": cid, "mode": mode, "threads": 2 if cfg[1] < 4 else 4, "partitions": cfg[1], "timeout_s": 20, "stmts": stmts,
            "sched": {"kind": "fifo", "seed": 1}}
    return case, pos


def res_class(x):
    if x is None:
        return "not-run"
    if "panic" in x:
        return "panic"
    if "hang" in x:
        return "timeout"
    return "rows" if x.get("ok") else "error"


def known_classes():
    return [k for k in common.known_findings()["known"] if k.get("property") == PID]


def paren_depth(sql):
    d = mx = 0
    for ch in sql:
        if ch in "([":
            d += 1
            mx = max(mx, d)
        elif ch in ")]":
            d = max(0, d - 1)
    return mx


def match_known(cls, site, msg, sql, klist):
    for k in klist:
        m = k.get("match", {})
        if cls not in m.get("outcomes", []):
            continue
        if m.get("min_paren_depth") is not None:
            if cls == "abort" and site == "stack-overflow" and paren_depth(sql) >= m["min_paren_depth"]:
                return k["id"]
            continue
        if m.get("min_length") is not None:
            if cls == "abort" and site == "stack-overflow" and len(tokens(sql)) >= m["min_length"]:
                return k["id"]
            continue
        if m.get("sql_only"):
            if re.search(m["sql"], sql, re.I | re.S):
                return k["id"]
            continue
        if site is None:
            # the panic was seen inside a session but did not happen again when the statement ran alone (the
            # planner iterates a randomly seeded HashMap): the assertion text itself identifies the site
            if m.get("msg_identifies_site") and re.search(m["msg"], msg or ""):
                return k["id"]
            continue
        f = site.rsplit(":", 1)[0]
        if not any(f.startswith(p) for p in m.get("files", [])):
            continue
        if re.search(m["msg"], msg or ""):
            if m.get("sql") and not re.search(m["sql"], sql, re.I | re.S):
                continue
            return k["id"]
    return None


def stage_fuzz(ctx, rng, gverif, klist):
    _FUNCS["gverif"] = gverif
    setup_db, tests = build_cases(rng, ctx["tier"])
    stats = {"outcomes": {}, "by_label": {}, "probe_checks": 0, "statements": 0, "threaded_cases": 0, "error_texts": set()}
    viol, known = [], {}
    slow_re = [m["match"]["sql"] for m in klist if m.get("match", {}).get("sql_only")]
    is_slow = lambda sql: any(re.search(p, sql, re.I | re.S) for p in slow_re)
    fast = [t for t in tests if not is_slow(t[1])]
    bycfg = {}
    for t in fast:
        bycfg.setdefault(cfg_of([t]), []).append(t)
    queue = [ts[i:i + PER_CASE] for cfg, ts in sorted(bycfg.items()) for i in range(0, len(ts), PER_CASE)] + \
            [[t] for t in tests if is_slow(t[1])]      # statements of the known slow classes: a session each
    rounds = 0
    ncase = 0
    while queue and rounds < 8:
        rounds += 1
        cases, meta = [], []
        for chunk in queue:
            mode = "threaded" if (ncase % 5 == 4) else "det"
            c, pos = make_case("q%d" % ncase, setup_db, chunk, mode)
            ncase += 1
            cases.append(c)
            meta.append((chunk, pos))
            if mode == "threaded":
                stats["threaded_cases"] += 1
        real = fault.run_parallel(gverif, cases, timeout=2400)
        queue = []
        for c, (chunk, pos), r in zip(cases, meta, real):
            cfg = cfg_of(chunk)
            nsetup = len(setup_for(cfg)) + len(setup_db)
            results = r.get("results") or []
            dead_at = None      # index of the test statement at which the case ended abnormally
            # what the probes answered after the previous statement of THIS session (after the setup: 1, 3 rows, the batch size);
            # an earlier successful statement may legitimately have changed it (insert into probe_t, set batch_size, drop ...)
            prev_probe = [[["I1"]], [["I3"]], [["I%d" % cfg_of(chunk)[0]]]]
            if ("timeout" in r or "abort" in r) and not results and len(chunk) > 1:
                # the watchdog / an abort ended the whole case without per-statement results: every statement alone
                queue += [[t] for t in chunk]
                continue
            if any(not x.get("ok") for x in results[:nsetup]):
                viol.append({"what": "session setup failed", "replay": {"stmts": c["stmts"][:nsetup], "results": results[:nsetup]}, "no_input": False})
                continue
            for ti, ((label, sql), p) in enumerate(zip([t[:2] for t in chunk], pos)):
                x = results[p] if p < len(results) else None
                cls = res_class(x)
                case_dead = x is None and ("abort" in r or "timeout" in r) and (p == len(results) or not results)
                if x is None and not case_dead:
                    # not reached: an earlier statement of the case ended it
                    stats["unreached"] = stats.get("unreached", 0) + len(chunk) - ti
                    break
                if case_dead:
                    cls = "timeout" if "timeout" in r else "abort"
                stats["statements"] += 1
                stats["outcomes"][cls] = stats["outcomes"].get(cls, 0) + 1
                stats["by_label"].setdefault(label, {}).setdefault(cls, 0)
                stats["by_label"][label][cls] += 1
                if cls == "error":
                    stats["error_texts"].add(re.sub(r"[0-9]+", "#", x.get("err") or "")[:50])
                replay = {"stmts": setup_for(cfg) + list(setup_db) + [sql] + PROBES, "batch_size": cfg[0], "partitions": cfg[1], "mode": c["mode"], "label": label, "sql": sql if len(sql) < 3000 else sql[:1500] + " ...[%d chars]" % len(sql),
                          "how": "one `gverif sql` case with these statements"}
                if cls in ("panic", "timeout", "abort"):
                    # again alone, in a process of its own: clean stderr gives the panic site
                    one = {"id": "one", "mode": c["mode"], "threads": c["threads"], "partitions": cfg[1], "timeout_s": 20,
                           "stmts": setup_for(cfg) + list(setup_db) + [sql], "sched": {"kind": "fifo", "seed": 1}}
                    if cls == "timeout" and case_dead and len(chunk) == 1:
                        rr = {"id": "one", "timeout": 20, "stderr": ""}      # already alone in its session: no second 20 s wait
                    else:
                        rr = fault.run_single(gverif, one)
                    k2, site, msg = fault.classify(rr)
                    if k2 in ("rows", "error"):
                        k2, site, msg = cls, None, "not reproduced alone: " + json.dumps(x or r)[:200]
                    if k2 == "abort" and site not in (None, "stack-overflow"):
                        dd = fault.run_single(gverif, dict(one, mode="det"))
                        d2 = fault.classify(dd)
                        if d2[0] == "panic":
                            msg = d2[2]
                    kid = match_known(k2, site, msg, sql, klist)
                    replay.update({"outcome": k2, "site": site, "message": msg})
                    if kid:
                        e = known.setdefault(kid, {"n": 0, "example": None})
                        e["n"] += 1
                        if e["example"] is None or len(sql) < len(e["example"]["sql"]):
                            e["example"] = replay
                    else:
                        viol.append({"what": "statement %s: %s%s" % (k2, site or "", (" " + msg[:100]) if msg else ""), "replay": replay, "no_input": False})
                    dead_at = ti
                    break
                # probes
                pr = [results[p + 1 + j] if p + 1 + j < len(results) else None for j in range(len(PROBES))]
                if any(y is None for y in pr):
                    pc = [res_class(y) for y in pr]
                    bad = "panic" if "panic" in pc else ("timeout" if "timeout" in r or "timeout" in pc else "abort")
                    viol.append({"what": "session does not survive: probe after a statement (%s) ends the case (%s)" % (cls, bad),
                                 "replay": dict(replay, probes=pr, case_result=json.dumps(r)[:300]), "no_input": False})
                    dead_at = ti
                    break
                stats["probe_checks"] += 1
                pcs = [res_class(y) for y in pr]
                if any(pc not in ("rows", "error") for pc in pcs):
                    viol.append({"what": "probe after a statement (%s) does not answer: %s" % (cls, pcs), "replay": dict(replay, probes=pr), "no_input": False})
                    dead_at = ti
                    break
                if cls == "error":
                    touches = re.search(r"probe_t", sql, re.I) and re.search(r"insert|drop|delete|update|truncate", sql, re.I)
                    want = prev_probe
                    got = [y.get("rows") if y.get("ok") else ("error: " + (y.get("err") or "")) for y in pr]
                    okp = got[0] == want[0] and (touches or got[1] == want[1]) and got[2] == want[2]
                    if not okp:
                        viol.append({"what": "state changed by a FAILED statement (model/Session.v: visible unchanged)",
                                     "replay": dict(replay, error=x.get("err"), probes_got=got, probes_want_as_after_previous_statement=want,
                                                    earlier_statements_of_session=[t[1][:200] for t in chunk[:ti]]), "no_input": False})
                    if label == "runtime-kth-ctas" and p + 4 < len(results):
                        y = results[p + 4]
                        if y.get("ok"):
                            kid = "ctas-failed-leaves-table"
                            if any(k["id"] == kid for k in klist):
                                e = known.setdefault(kid, {"n": 0, "example": None})
                                e["n"] += 1
                                e["example"] = dict(replay, after="select count(*) from ctas_t -> %s" % json.dumps(y.get("rows")))
                            else:
                                viol.append({"what": "catalog changed by a FAILED statement: CREATE TABLE AS failed at run time but the table exists",
                                             "replay": dict(replay, error=x.get("err"), after=y), "no_input": False})
                prev_probe = [y.get("rows") if y.get("ok") else ("error: " + (y.get("err") or "")) for y in pr]
            if dead_at is not None and dead_at + 1 < len(chunk):
                queue.append(chunk[dead_at + 1:])
    return {"viol": viol, "known": known, "stats": stats, "tests": len(tests), "cases": ncase, "rounds": rounds,
            "sample": {"valid": tests[0][1][:200], "mutated": [t[1] for t in tests if t[0] == "mutated"][:2]}}


def stage_depth(ctx, gverif, klist, known, viol, stats):
    """replay of the refutation witness C15_depth_witness: SELECT ((((..1..)))) with KNOWN_CRASH_DEPTH parentheses"""
    sql = nested_parens(KNOWN_CRASH_DEPTH)
    one = {"id": "deep", "mode": "det", "partitions": 2, "timeout_s": 60, "stmts": [sql, "select 1"], "sched": {"kind": "fifo", "seed": 1}}
    r = fault.run_single(gverif, one)
    cls, site, msg = fault.classify(r)
    stats["outcomes"]["depth-witness:" + cls] = 1
    rep = {"sql": "select " + "(" * 3 + "...%d parentheses... 1 ...)" % KNOWN_CRASH_DEPTH, "generator": "vlib/c15.py nested_parens(%d)" % KNOWN_CRASH_DEPTH,
           "outcome": cls, "site": site, "message": msg, "model": "depth_needed (nested %d) = %d (theorem C15_depth_witness)" % (KNOWN_CRASH_DEPTH, KNOWN_CRASH_DEPTH)}
    if cls in ("rows", "error"):
        return {"limit_found": True, "outcome": cls, "message": msg}
    kid = match_known(cls, site, msg, sql, klist)
    if kid:
        e = known.setdefault(kid, {"n": 0, "example": None})
        e["n"] += 1
        e["example"] = rep
    else:
        viol.append({"what": "deeply nested expression: %s %s" % (cls, site or msg[:80]), "replay": rep, "no_input": False})
    return {"limit_found": False, "outcome": cls}


def run(ctx):
    t0 = time.time()
    rng = common.Rng(ctx["seed"])
    out = {"violations": [], "known": [], "assumptions": [], "level": "partial"}
    klist = known_classes()
    gverif, _ = common.build_harness()
    pr = common.coq_props(PROPS)
    audit = [a for a in common.audit_sources() if "Session" in a or "C15" in a]
    obligations = pr["declared"]
    bad_assum = common.check_assumptions(pr) if pr["ok"] else []
    proof_broken = (not pr["ok"]) or bool(bad_assum) or bool(audit)
    discharged = 0 if proof_broken else len(obligations)
    k = stage_fuzz(ctx, rng, gverif, klist)
    d = stage_depth(ctx, gverif, klist, k["known"], k["viol"], k["stats"])
    # one violation per (what, site) with the shortest statement
    best = {}
    for v in k["viol"]:
        rp = v["replay"]
        key = (v["what"][:60], rp.get("site"), re.sub(r"[0-9]+", "#", rp.get("message") or "")[:50])
        if key not in best or len(rp.get("sql", "")) < len(best[key]["replay"].get("sql", "")):
            n = best[key]["replay"].get("occurrences", 0) if key in best else 0
            best[key] = v
            v["replay"]["occurrences"] = n
        best[key]["replay"]["occurrences"] += 1
    out["violations"] = list(best.values())
    for kid, e in sorted(k["known"].items()):
        what = [x["what"] for x in klist if x["id"] == kid]
        out["known"].append("%s: %s [%d statement(s); shortest: %s]" % (kid, what[0] if what else "", e["n"], (e["example"] or {}).get("sql", "")[:120]))
    if proof_broken:
        out["violations"].append({"what": "theorem(s) in %s no longer check" % PROPS,
                                  "replay": {"failed_at": pr.get("failed_at"), "log_tail": pr["log"][-1500:] if not pr["ok"] else "",
                                             "assumption_problems": bad_assum, "audit": audit}, "no_input": not k["viol"]})
    st = k["stats"]
    out["coverage"] = {
        "obligations": len(obligations), "discharged": discharged,
        "checker_cmd": "cd coq && make props/C15.vo (Print Assumptions parsed; Admitted/Axiom audit)",
        "trusted_base": ["Coq 8.16.1 kernel", "harness/src/sql.rs (catch_unwind per statement, deterministic scheduler hang detection, watchdog)",
                         "vlib/c15.py statement generators, probe comparison, outcome classifier (shared with vlib/c19.py)",
                         "model/Session.v is a hand transcription of session.rs (SET/RESET mutate config during planning; other statements mutate the catalog only inside operators)",
                         "NOT proved: that no statement text panics / aborts / hangs the Rust process: searched only"],
        "theorems": obligations,
        "evaluations": st["statements"] + st["probe_checks"] * len(PROBES) + 1,
        "distinct_nontrivial": k["tests"],
        "rule": "every test statement runs in a session with a temp table and a changed setting, followed by three probes; counted: test statements executed and probe triples compared. "
                "Outcome classes of the test statements below; panic/abort/timeout outside findings/C15.json are violations; after an error the probes must show the unchanged state.",
        "samples": [k["sample"], {"outcomes": st["outcomes"]}],
        "outcomes": st["outcomes"], "outcomes_by_generator": st["by_label"], "statements": st["statements"], "probe_triples_checked": st["probe_checks"],
        "sessions": k["cases"], "threaded_sessions": st["threaded_cases"], "requeue_rounds": k["rounds"], "unreached_statements": st.get("unreached", 0), "distinct_error_texts": len(st["error_texts"]),
        "depth_witness": d, "functions_listed_by_engine": _FUNCS.get("listed"), "function_names_called": len(_FUNCS.get("names") or []),
        "batch_sizes": BATCH_SIZES, "partitions": PARTITIONS, "exhaustive": False,
    }
    out["level_claimed"] = "partial"
    out["level_note"] = ("the universally quantified part of C15 (no statement text panics, aborts or hangs the process) is a SEARCH over generated statements, not a proof; "
                         "the proof covers error atomicity of the session state machine (failed statement => catalog/settings unchanged, portal replaced cleanly) "
                         "and the unboundedness of parser recursion (depth_unbounded), whose witness is replayed")
    out["assumptions"] = ["dev profile (overflow checks, debug assertions)", "one session per case, single user engine, temp catalog only",
                          "statements are valid Unicode strings (the engine API takes &str): invalid UTF-8 cannot reach the parser; control characters, NUL, unpaired-looking sequences and U+FFFD are used instead",
                          "table CONTENTS after a failed INSERT are not part of the catalog/settings state compared here"]
    out["wall"] = time.time() - t0
    # front end proved total: tokenizer + Pratt expression parser skeleton (model/Lexer.v, ParserSkel.v, props/C15lex.v)
    from . import c15lex
    return common.merge_results(out, c15lex.run(ctx), "lexer_parser_front_end")


def replay(ctx, payload):
    rp = payload.get("replay", payload)
    gverif, _ = common.build_harness()
    if "stmts" in rp:
        one = {"id": "replay", "mode": rp.get("mode", "det"), "threads": 2, "partitions": 2, "timeout_s": 60, "stmts": rp["stmts"], "sched": {"kind": "fifo", "seed": 1}}
        r = fault.run_single(gverif, one)
        print(json.dumps(r)[:3000])
        print(fault.classify(r))
        return 0
    print(json.dumps(rp)[:3000])
    return 0
