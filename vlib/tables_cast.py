"""Regenerate coq/gen/TablesCast.v from /repo's current source (C13): the integer casts flagged
CastFlatten::Safe in cast/builtin/to_primitive.rs and the condition under which
CastExpr::new_using_default_casts drops an inner cast.  What cannot be found is emitted as None /
an empty list so that the theorems depending on it stop checking."""
import os, re
from . import common

SRC = os.path.join(common.REPO, "crates", "glaredb_core", "src")
INT = {"I8": (True, 8), "I16": (True, 16), "I32": (True, 32), "I64": (True, 64), "I128": (True, 128),
       "U8": (False, 8), "U16": (False, 16), "U32": (False, 32), "U64": (False, 64), "U128": (False, 128)}


def _read(rel):
    try:
        return open(os.path.join(SRC, rel)).read()
    except FileNotFoundError:
        return ""


def scan():
    t = {"safe_int_casts": [], "flatten_requires_direct_safe": None, "flatten_requires_inner_safe": None}
    src = _read("functions/cast/builtin/to_primitive.rs")
    for m in re.finditer(r"RawCastFunction::new\(\s*DataTypeId::(\w+)\s*,\s*&PrimToPrim::<Physical(\w+),\s*Physical(\w+)>::new\(\)\s*,"
                         r"\s*[^,]+,\s*CastFlatten::(\w+)\s*\)", src):
        dt, a, b, fl = m.groups()
        if fl == "Safe" and a in INT and b in INT:
            t["safe_int_casts"].append((INT[a], INT[b]))
    ce = re.sub(r"//[^\n]*", "", _read("expr/cast_expr.rs"))
    ce = re.sub(r"\s+", " ", ce)
    direct = r"matches!\(cast_fn\.flatten, CastFlatten::Safe\)"
    inner = r"matches!\(existing_cast\.cast_function\.raw\.flatten, CastFlatten::Safe\)"
    if re.search(r"if %s && %s \{" % (direct, inner), ce) or re.search(r"if %s && %s \{" % (inner, direct), ce):
        t["flatten_requires_direct_safe"], t["flatten_requires_inner_safe"] = True, True
    elif re.search(r"if %s \{" % direct, ce):
        t["flatten_requires_direct_safe"], t["flatten_requires_inner_safe"] = True, False
    return t


def render(t):
    b = lambda x: "true" if x else "false"
    ob = lambda x: "None" if x is None else "(Some %s)" % b(x)
    rows = ";\n   ".join("((%s, %d), (%s, %d))" % (b(s[0]), s[1], b(d[0]), d[1]) for s, d in t["safe_int_casts"])
    return "\n".join([
        "(* GENERATED on every run by vlib/tables_cast.py from /repo's working tree. Do not edit. *)",
        "From Coq Require Import ZArith List.", "Import ListNotations.", "Open Scope Z_scope.", "",
        "(* (signed, bits) of source and target of every PrimToPrim integer cast flagged CastFlatten::Safe *)",
        "Definition safe_int_casts : list ((bool * Z) * (bool * Z)) :=\n  [%s]." % rows, "",
        "(* CastExpr::new_using_default_casts drops the inner cast only if ... is flagged Safe *)",
        "Definition flatten_requires_direct_safe : option bool := %s." % ob(t["flatten_requires_direct_safe"]),
        "Definition flatten_requires_inner_safe : option bool := %s." % ob(t["flatten_requires_inner_safe"]), ""])


def regenerate():
    t = scan()
    path = os.path.join(common.COQ, "gen", "TablesCast.v")
    os.makedirs(os.path.dirname(path), exist_ok=True)
    body = render(t)
    cur = open(path).read() if os.path.exists(path) else ""
    if cur != body:
        with common.Lock("coq"):
            open(path, "w").write(body)
    return {"safe_int_casts": len(t["safe_int_casts"]), "flatten_requires_direct_safe": t["flatten_requires_direct_safe"],
            "flatten_requires_inner_safe": t["flatten_requires_inner_safe"]}
