"""Shared driver for the properties decided through the SQL reference semantics (C01, C02, C03, C05,
C06, C07, C09): proof stage on props/<Cnn>.v, then generated queries on the real engine judged by the
extracted `check_answer`, with the engine's listed deviation classes recognised through AST rewrites
(vlib/sqlast.py) and narrow outcome predicates."""
import json, time, collections
from . import common, sqlgen, sqlrun, sqlast

OPTIMIZER_INTERNAL = ("all_non_empty_edges_removed", "Missing left rel id", "Missing right rel id",
                      "Filter previously used", "Column expr not referencing a valid table ref",
                      "Table ref is invalid")


def needs_drain_limit(q):
    s = q.sql.upper()
    return ("LEFT JOIN" in s) and (" LIMIT " in s or "EXISTS" in s)


def const_subquery_class(rec, gmodel, known_ids):
    """class optimizer-constant-operand-subquery: with the optimizer on, a [NOT] IN / ANY / ALL subquery whose left
    operand is a constant becomes a mark join whose condition references no left column; join reordering mishandles
    it (intermittently, it iterates a randomly seeded HashMap): internal error, the hyper-edge assertion, or lost /
    duplicated rows of the other FROM items.  Recognised structurally AND by the same statement being answered
    correctly (admitted by the reference semantics or one of its listed variants) with the optimizer off."""
    q = rec["q"]
    if "optimizer-constant-operand-subquery" not in known_ids or not rec["cfg"].get("enable_optimizer", True):
        return None
    if not sqlast.const_left_subquery(sqlast.parse(q.sx)):
        return None
    stmts = [x for x in rec["stmts"][:-1] if not x.startswith("set enable_optimizer")] + \
            ["set enable_optimizer to false", rec["stmts"][-1]]
    r2 = common.run_harness(rec["gverif"], "sql", [{"id": "k", "mode": "det", "partitions": 2,
                                                    "sched": {"kind": "fifo", "seed": 1}, "stmts": stmts, "timeout_s": 60}])[0]
    last = (r2.get("results") or [{}])[-1]
    if not last.get("ok"):
        return None
    got = "(" + " ".join("(" + " ".join(sqlrun.cell_sx(x) for x in row) + ")" for row in last["rows"]) + ")"
    texts = [sqlast.expand_text(q.sx)] + [v for k, v in sqlast.variants(q.sx).items() if "distributive-or-absorption" not in k]
    res = common.run_model(gmodel, "x", ["(check %s %s %s)" % (rec["dbsx"], t, got) for t in texts])
    return "optimizer-constant-operand-subquery" if any(x == "OK" for x in res) else None


def classify_known(rec, gmodel, known_ids):
    """returns the id of the known-finding class that explains this non-agreeing record, or None"""
    q, out, e = rec["q"], rec["outcome"], rec["engine"]
    if out == "mismatch":
        vs = sqlast.variants(q.sx)
        if not vs:
            if "lateral" in q.classes and "lateral-nested-correlation-wrong-result" in known_ids and \
                    sqlast.lateral_nested_correlation(sqlast.parse(q.sx)):
                return "lateral-nested-correlation-wrong-result"
            return None
        dbsx = rec["dbsx"]
        got = "(" + " ".join("(" + " ".join(sqlrun.cell_sx(x) for x in row) + ")" for row in e["rows"]) + ")"
        if not rec["cfg"].get("enable_optimizer", True):
            vs = {k: v for k, v in vs.items() if "distributive-or-absorption" not in k}
        ids = list(vs)
        res = common.run_model(gmodel, "x", ["(check %s %s %s)" % (dbsx, vs[i], got) for i in ids])
        for i, r in zip(ids, res):
            if r == "OK":
                for part in i.split("+"):
                    if part.split("~")[0] not in known_ids:
                        return None
                return "+".join(sorted(set(part.split("~")[0] for part in i.split("+"))))
        if "lateral" in q.classes and "lateral-nested-correlation-wrong-result" in known_ids and \
                sqlast.lateral_nested_correlation(sqlast.parse(q.sx)):
            return "lateral-nested-correlation-wrong-result"
        return None
    msg = ""
    if isinstance(e, dict):
        msg = e.get("err") or e.get("panic") or e.get("hang") or ""
        full = e.get("err_full") or msg
        if out == "engine_error" and "lateral" in q.classes and \
                ("Column expr not referencing a valid table ref" in full or "Table ref is invalid" in full or
                 "Cannot clone arrays with different data types" in full) and \
                "lateral-nested-correlation-plan-error" in known_ids and \
                sqlast.lateral_nested_correlation(sqlast.parse(q.sx)):
            # class: a LATERAL subquery that itself contains a subquery (or a further LATERAL) referencing columns
            # from outside fails in the dependent-join pushdown with this internal error, optimizer on or off
            return "lateral-nested-correlation-plan-error"
    if out in ("engine_panic", "engine_error") and rec["cfg"].get("enable_optimizer", True) and \
            isinstance(e, dict) and e.get("phase", "plan") == "plan" and "optimizer-internal-error" in known_ids:
        # class: fails at plan time with the optimizer on, and the same statement is answered correctly with it off
        stmts = [x for x in rec["stmts"][:-1] if not x.startswith("set enable_optimizer")] + \
                ["set enable_optimizer to false", rec["stmts"][-1]]
        r2 = common.run_harness(rec["gverif"], "sql", [{"id": "k", "mode": "det", "partitions": 2,
                                                        "sched": {"kind": "fifo", "seed": 1}, "stmts": stmts, "timeout_s": 60}])[0]
        last = (r2.get("results") or [{}])[-1]
        if last.get("ok"):
            got = "(" + " ".join("(" + " ".join(sqlrun.cell_sx(x) for x in row) + ")" for row in last["rows"]) + ")"
            v = common.run_model(gmodel, "x", ["(check %s %s %s)" % (rec["dbsx"], sqlast.expand_text(q.sx), got)])[0]
            if v == "OK":
                return "optimizer-internal-error"
            for cid, vsx in sqlast.variants(q.sx).items():
                if "distributive-or-absorption" in cid:
                    continue
                if common.run_model(gmodel, "x", ["(check %s %s %s)" % (rec["dbsx"], vsx, got)])[0] == "OK":
                    return "optimizer-internal-error"
        return None
    return None


def run_property(ctx, pid, props_file, make_work, theorems_note, rule, trusted_extra=(), timeout_s=60,
                 pair_check=None):
    """make_work(rng, tier) -> list of work items for sqlrun.run (each with "runs": [(Q, cfg)...]).
    pair_check(records) -> extra violations (e.g. optimizer on/off must agree with each other)."""
    t0 = time.time()
    rng = common.Rng(ctx["seed"])
    gverif, _ = common.build_harness()
    pr = common.coq_props(props_file)
    audit = common.audit_sources()
    obligations = pr["declared"]
    bad = common.check_assumptions(pr) if pr["ok"] else []
    discharged = len(obligations) if pr["ok"] and not bad and not audit else 0
    gmodel = common.build_ocaml("sql")
    work = make_work(rng, ctx["tier"])
    for w in work:
        w["dbsx"] = sqlgen.sx_db(w["tables"])
    recs = sqlrun.run(gverif, gmodel, work, timeout_s=timeout_s)
    byid = {w["id"]: w for w in work}
    known_entries = [k for k in common.known_findings()["known"]
                     if k["property"] in (pid, "SQL") or k["id"] in sqlast.KNOWN_REWRITES]
    known_ids = set(k["id"] for k in known_entries)
    violations, known_hits = [], collections.Counter()
    outcomes = collections.Counter()
    classes = collections.Counter()
    distinct = set()
    for r in recs:
        r["dbsx"] = byid[r["case"]]["dbsx"]
        r["gverif"] = gverif
        if r.get("blocked_by_earlier"):
            outcomes["blocked"] += 1
            continue
        outcomes[r["outcome"]] += 1
        for c in r["q"].classes:
            classes[c] += 1
        distinct.add((r["q"].sql, json.dumps(r["cfg"], sort_keys=True)))
        if r["outcome"] in ("agree", "both_error", "unsupported"):
            continue
        if r["outcome"] in ("engine_hang", "engine_abort") and r.get("run"):
            # a watchdog timeout can be machine load: the statement list is run once more on its own with a
            # four times longer watchdog; only a repeated hang/abort is reported
            case = dict(r["run"])
            case.update({"id": "retry", "stmts": r["stmts"], "timeout_s": 4 * timeout_s})
            rr = common.run_harness(gverif, "sql", [case], timeout=4 * timeout_s + 120)[0]
            res = rr.get("results")
            if res and len(res) == len(r["stmts"]):
                last = res[-1]
                if last.get("ok"):
                    got = "(" + " ".join("(" + " ".join(sqlrun.cell_sx(x) for x in row) + ")" for row in last["rows"]) + ")"
                    v = common.run_model(gmodel, "x", ["(check %s %s %s)" % (r["dbsx"], sqlast.expand_text(r["q"].sx), got)])[0]
                    if v == "OK":
                        outcomes["agree_after_retry_in_isolation"] += 1
                        continue
                    r["engine"], r["outcome"], r["verdict"] = last, "mismatch", v
                elif "err" in last:
                    v = common.run_model(gmodel, "x", ["(eval %s %s)" % (r["dbsx"], sqlast.expand_text(r["q"].sx))])[0]
                    if v.startswith("ERR"):
                        outcomes["agree_after_retry_in_isolation"] += 1
                        continue
                    r["engine"], r["outcome"] = last, "engine_error"
            r["retried_in_isolation"] = True
        k = classify_known(r, gmodel, known_ids)
        if k:
            known_hits[k] += 1
            continue
        violations.append({"what": "%s: engine answer not admitted by the reference semantics (%s)" % (pid, r["outcome"]),
                           "replay": sqlrun.replay_of(r), "no_input": False})
    if pair_check:
        violations += pair_check(recs)
    if not pr["ok"] or bad or audit:
        reason = {"proof_failed_at": pr.get("failed_at"), "log_tail": pr["log"][-1500:] if not pr["ok"] else "",
                  "assumption_problems": bad, "audit": audit}
        # the correspondence stage above IS the failing-input search for these properties
        if not violations:
            violations.append({"what": "theorem(s) in %s no longer check" % props_file, "replay": reason, "no_input": True})
    # cap replays per outcome so a flood of one kind cannot hide another
    capped, seen = [], collections.Counter()
    for v in violations:
        key = v["replay"].get("outcome") if isinstance(v["replay"], dict) else None
        seen[key] += 1
        if seen[key] <= 5:
            capped.append(v)
    known_lines = []
    for k in known_entries:
        if known_hits[k["id"]]:
            known_lines.append("%s: %s [%d case(s)]" % (k["id"], k["what"], known_hits[k["id"]]))
    for kid, n in known_hits.items():
        if "+" in kid:
            known_lines.append("%s [%d case(s)]" % (kid, n))
    sample = None
    for r in recs:
        if r["outcome"] == "agree":
            sample = {"sql": r["q"].sql, "config": r["cfg"], "rows": r["engine"]["rows"][:3],
                      "schema": r["engine"]["schema"]}
            break
    cov = {"obligations": len(obligations), "discharged": discharged,
           "checker_cmd": "cd coq && make -j16 %s  (Print Assumptions parsed; Admitted/Axiom audit over coq/)" % props_file.replace(".v", ".vo"),
           "trusted_base": ["Coq 8.16.1 kernel", "extraction (ExtrOcamlBasic only) + ocaml/sql.ml (parsing/printing)",
                            "vlib/sqlgen.py: the generator prints SQL text and the resolved AST side by side (name resolution of the AST is the generator's)",
                            "harness/src/sql.rs; python canonicalisation of cells"] + list(trusted_extra),
           "theorems": obligations, "theorems_note": theorems_note,
           "evaluations": sum(v for k, v in outcomes.items() if k != "blocked"),
           "distinct_nontrivial": len(distinct), "rule": rule,
           "samples": [sample], "outcomes": dict(outcomes), "query_class_histogram": dict(classes),
           "known_class_hits": dict(known_hits), "exhaustive": False}
    return {"violations": capped, "known": known_lines, "coverage": cov,
            "assumptions": ["integer values kept small so that the main stream never overflows (overflow is C12's subject)",
                            "floats, decimals, dates are outside this reference semantics (covered by C05/C08/C12/C13 checks)"],
            "wall": time.time() - t0}
