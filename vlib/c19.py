"""C19 — Malformed Parquet/CSV input fails cleanly, never crashes or hangs.   Level: PARTIAL.

Proof part (coq/props/C19.v): footer loader, thrift compact reader (skip path, list headers) and the bit-level helpers:
`decode_total_safe` proved where the source checks (or would, with the proposed patches: cfg flags), refuted with closed
witnesses where it does not.  gen/TablesFault.v (vlib/tables_fault.py) says which checks the source has now.
P : lies in the two size fields of a data page header: outcome predicted by load_page_plain (coqc) vs the engine.
W : every witness byte string of the refutations is replayed on the engine (`gverif sql` on a file made of it, `gv_pq`
    for the bit-level helpers); the outcome class, the panic site and the allocation size must be the model's.
S : fault enumeration on valid files (the Gallina writer of C10 + /repo/testdata/parquet): every truncation, single-byte
    XOR 0xFF, single-bit flips, and lies in every numeric field of the footer and of the page headers (thrift rewrite);
    CSV: invalid UTF-8, unterminated quotes, ragged rows, NUL bytes, a huge field, random byte soup.
    Each case = one `gverif sql` case (threaded, timeout 20 s, address space 4 GB): rows | error are fine,
    panic | abort | timeout | oom are violations unless inside a narrow class of findings/C19.json."""
import copy, json, os, re, time
from concurrent.futures import ThreadPoolExecutor
from . import common, c10, tables_fault

PID = "C19"
PROPS = "props/C19.v"
WDIR = os.path.join(common.WORK, "fault")
AS_LIMIT_KB = 4000000
WORKERS = 12

# ---------------------------------------------------------------- thrift compact: generic tree, parse + serialise
T_STOP, T_TRUE, T_FALSE, T_BYTE, T_I16, T_I32, T_I64, T_DBL, T_BIN, T_LIST, T_SET, T_MAP, T_STRUCT = range(13)


class Bad(Exception):
    pass


def rd_vlq(b, i):
    v, sh = 0, 0
    while True:
        if i >= len(b) or sh > 70:
            raise Bad("vlq")
        x = b[i]
        i += 1
        v |= (x & 0x7f) << sh
        sh += 7
        if not x & 0x80:
            return v, i


def wr_vlq(v):
    out = bytearray()
    while True:
        x = v & 0x7f
        v >>= 7
        if v:
            out.append(x | 0x80)
        else:
            out.append(x)
            return bytes(out)


def unzz(v):
    return (v >> 1) ^ -(v & 1)


def zz(v):
    v &= (1 << 64) - 1
    s = v - (1 << 64) if v >> 63 else v
    return ((s << 1) ^ (s >> 63)) & ((1 << 64) - 1)


def parse_value(b, i, ty, depth=0):
    if depth > 40:
        raise Bad("depth")
    if ty in (T_I16, T_I32, T_I64):
        v, i = rd_vlq(b, i)
        return ["int", ty, unzz(v)], i
    if ty == T_BYTE:
        if i >= len(b):
            raise Bad("eof")
        return ["byte", b[i]], i + 1
    if ty == T_DBL:
        if i + 8 > len(b):
            raise Bad("eof")
        return ["dbl", bytes(b[i:i + 8])], i + 8
    if ty == T_BIN:
        n, i = rd_vlq(b, i)
        if i + n > len(b):
            raise Bad("eof")
        return ["bin", n, bytes(b[i:i + n])], i + n
    if ty == T_STRUCT:
        fields, last = [], 0
        while True:
            if i >= len(b):
                raise Bad("eof")
            h = b[i]
            i += 1
            fty, delta = h & 15, h >> 4
            if fty == T_STOP:
                return ["struct", fields], i
            if delta:
                fid = last + delta
            else:
                v, i = rd_vlq(b, i)
                fid = unzz(v)
            last = fid
            if fty in (T_TRUE, T_FALSE):
                fields.append([fid, fty, ["bool", fty == T_TRUE]])
            else:
                node, i = parse_value(b, i, fty, depth + 1)
                fields.append([fid, fty, node])
    if ty == T_LIST:
        if i >= len(b):
            raise Bad("eof")
        h = b[i]
        i += 1
        ety, cnt = h & 15, h >> 4
        if cnt == 15:
            cnt, i = rd_vlq(b, i)
        if cnt > len(b):
            raise Bad("count")
        items = []
        for _ in range(cnt):
            if ety in (T_TRUE, T_FALSE):
                if i >= len(b):
                    raise Bad("eof")
                items.append(["lbool", b[i]])
                i += 1
            else:
                node, i = parse_value(b, i, ety, depth + 1)
                items.append(node)
        return ["list", ety, cnt, items], i
    raise Bad("type %d" % ty)


class Ser:
    """serialise a tree; numeric site number `target` (DFS order) is replaced by `value`"""
    def __init__(self, target=None, value=None):
        self.n, self.target, self.value, self.sites = 0, target, value, []

    def num(self, v, kind, path):
        k = self.n
        self.n += 1
        self.sites.append((k, kind, path, v))
        return self.value if k == self.target else v

    def ser(self, node, path=()):
        k = node[0]
        if k == "int":
            return wr_vlq(zz(self.num(node[2], "int%d" % node[1], path)))
        if k == "byte":
            return bytes([node[1]])
        if k == "dbl":
            return node[1]
        if k == "bin":
            return wr_vlq(self.num(node[1], "binlen", path) & ((1 << 64) - 1)) + node[2]
        if k == "lbool":
            return bytes([node[1]])
        if k == "struct":
            out, last = bytearray(), 0
            for fid, fty, sub in node[1]:
                d = fid - last
                if 0 < d <= 15:
                    out.append((d << 4) | fty)
                else:
                    out.append(fty)
                    out += wr_vlq(zz(fid))
                last = fid
                if fty not in (T_TRUE, T_FALSE):
                    out += self.ser(sub, path + (fid,))
            out.append(0)
            return bytes(out)
        if k == "list":
            cnt = self.num(node[2], "count", path) & ((1 << 64) - 1)
            out = bytearray()
            if cnt < 15:
                out.append((cnt << 4) | node[1])
            else:
                out.append(0xF0 | node[1])
                out += wr_vlq(cnt)
            for j, it in enumerate(node[3]):
                out += self.ser(it, path + ("[%d]" % j,))
            return bytes(out)
        raise ValueError(k)


def get_path(node, path):
    for p in path:
        if node[0] == "struct":
            node = [f for f in node[1] if f[0] == p][0][2]
        else:
            node = node[3][p if p >= 0 else len(node[3]) + p]
    return node


LIES = {"int4": [-1, 0, 2 ** 15 - 1, -2 ** 15], "int5": [-1, 0, 2 ** 31 - 1, -2 ** 31], "int6": [-1, 0, 2 ** 31 - 1, 2 ** 63 - 1, -2 ** 63],
        "count": [0, 2 ** 31 - 1, 2 ** 32 - 1, 2 ** 63 - 1], "binlen": [0, 2 ** 31 - 1, 2 ** 63 - 1]}
LIES["int6"] = [-1, 0, 2 ** 31 - 1, 2 ** 63 - 1, 1]
LIES["int5"] = [-1, 0, 2 ** 31 - 1, 1, 65]


class PqFile:
    """a valid parquet file split into data area / footer tree, with the page headers of the last column chunk of the
    last row group located (their length may change in a lie: the footer's chunk sizes are fixed up)"""
    def __init__(self, name, b):
        self.name, self.b = name, bytes(b)
        flen = int.from_bytes(b[-8:-4], "little")
        self.foot_start = len(b) - 8 - flen
        self.tree, end = parse_value(b, self.foot_start, T_STRUCT)
        self.ok = end == len(b) - 8 and self.rebuild(self.tree) == self.b
        self.pages = []   # (hdr_start, hdr_end, tree, body_end) of the last chunk
        self.regions = {}
        try:
            self.locate_pages()
        except (Bad, IndexError, KeyError):
            self.pages = []

    def rebuild(self, tree, data=None, target=None, value=None):
        s = Ser(target, value)
        f = s.ser(tree)
        return (self.b[:self.foot_start] if data is None else data) + f + len(f).to_bytes(4, "little") + b"PAR1"

    def footer_sites(self):
        s = Ser()
        s.ser(self.tree)
        return s.sites

    def chunks(self):
        out = []
        for rg in get_path(self.tree, (4,))[3]:
            for cc in [f for f in rg[1] if f[0] == 1][0][2][3]:
                md = [f for f in cc[1] if f[0] == 3]
                if not md:
                    continue
                md = md[0][2]
                fl = {f[0]: f[2] for f in md[1]}
                start = fl[9][2]
                if 11 in fl and fl[11][2] > 0:
                    start = min(start, fl[11][2])
                out.append((start, fl[7][2], md))
        return out

    def locate_pages(self):
        ch = self.chunks()
        allp = []
        for ci, (start, size, md) in enumerate(ch):
            i, end = start, start + size
            while i < end:
                tree, j = parse_value(self.b, i, T_STRUCT)
                fl = {f[0]: f[2] for f in tree[1]}
                body = fl[3][2]
                allp.append((ci, i, j, tree, j + body))
                i = j + body
        self.allpages = allp
        last = len(ch) - 1
        self.pages = [p[1:] for p in allp if p[0] == last]
        self.last_md = ch[last][2]
        # regions for the coverage counters
        reg = {}
        for k in range(len(self.b)):
            reg[k] = "data"
        for (ci, a, j, tree, e) in allp:
            for k in range(a, j):
                reg[k] = "pagehdr"
            fl = {f[0]: f[2] for f in tree[1]}
            if fl[1][2] == 2:
                for k in range(j, e):
                    reg[k] = "dict"
            else:
                lv = 0
                if 8 in fl:
                    f8 = {f[0]: f[2] for f in fl[8][1]}
                    lv = f8[5][2] + f8[6][2]
                else:
                    lv = min(e - j, 12)     # v1: length-prefixed RLE levels (if any) and the index/values head
                for k in range(j, min(e, j + lv)):
                    reg[k] = "levels"
        for k in range(self.foot_start, len(self.b)):
            reg[k] = "footer"
        for k in range(len(self.b) - 8, len(self.b)):
            reg[k] = "trailer"
        self.regions = reg

    def page_sites(self, pi):
        s = Ser()
        s.ser(self.pages[pi][2])
        return s.sites

    def page_lie(self, pi, target, value):
        a, j, tree, e = self.pages[pi]
        s = Ser(target, value)
        nh = s.ser(tree)
        d = len(nh) - (j - a)
        data = self.b[:a] + nh + self.b[j:self.foot_start]
        # fix the chunk sizes of the last chunk in a copy of the footer
        tr = copy.deepcopy(self.tree)
        ch = PqFile.__new__(PqFile)
        ch.tree = tr
        md = ch.chunks()[-1][2]
        for f in md[1]:
            if f[0] in (6, 7):
                f[2][2] += d
        f = Ser().ser(tr)
        return data + f + len(f).to_bytes(4, "little") + b"PAR1"


# ---------------------------------------------------------------- outcome classes
def short(path):
    m = re.search(r"crates/(.*)$", path)
    if m:
        return m.group(1)
    m = re.search(r"/rustc/[0-9a-f]+/(library/.*)$", path)
    return m.group(1) if m else path


ABORT_RE = re.compile(r"panicked at ([^\s:]+):(\d+):\d+:?\s*\n(?:Rayon: detected unexpected panic; aborting|thread caused non-unwinding panic)")


def classify(r):
    """-> (class, site, message)"""
    if "timeout" in r:
        return ("timeout", None, "watchdog %ss" % r["timeout"])
    if "abort" in r:
        err = r.get("stderr", "")
        m = re.search(r"memory allocation of (\d+) bytes failed", err)
        if m:
            return ("oom", None, m.group(0))
        if "overflowed its stack" in err:
            return ("abort", "stack-overflow", "stack overflow")
        ms = ABORT_RE.findall(err)
        if ms:
            return ("abort", "%s:%s" % (short(ms[-1][0]), ms[-1][1]), "")
        if r.get("abort") == 3:
            return ("abort", None, "rc=3 (watchdog of a neighbour case)")
        return ("abort", None, "rc=%s %s" % (r.get("abort"), err[-160:]))
    res = r.get("results")
    if not res:
        return ("abort", None, "no result: " + json.dumps(r)[:160])
    for x in res:
        if "panic" in x:
            ms = re.findall(r"panicked at ([^\s:]+):(\d+):\d+", r.get("stderr", ""))
            return ("panic", "%s:%s" % (short(ms[-1][0]), ms[-1][1]) if ms else None, x["panic"])
        if "hang" in x:
            return ("timeout", None, x["hang"])
    if all(x.get("ok") for x in res):
        return ("rows", None, "")
    return ("error", None, [x.get("err") for x in res if not x.get("ok")][0] or "")


def known_classes():
    return [k for k in common.known_findings()["known"] if k.get("property") == PID]


def match_known(cls, site, msg, det_msg, klist, fbytes=None):
    """the narrow classes: (outcome class, source file of the panic site, message pattern) or a predicate on the bytes"""
    text = msg or det_msg or ""
    for k in klist:
        m = k.get("match", {})
        if cls not in m.get("outcomes", []):
            continue
        pred = m.get("predicate")
        if cls == "oom":
            if pred == "trailer-length-exceeds-file" and fbytes is not None and len(fbytes) >= 12 and \
                    int.from_bytes(fbytes[-8:-4], "little") + 8 > len(fbytes):
                n = re.search(r"(\d+) bytes", msg)
                if n and int(n.group(1)) == int.from_bytes(fbytes[-8:-4], "little"):
                    return k["id"]
            if pred == "thrift-list-count-exceeds-input" and fbytes is not None and lying_list_count(fbytes):
                return k["id"]
            if pred == "chunk-range-beyond-file" and fbytes is not None and chunk_range_beyond_file(fbytes):
                return k["id"]
            if pred == "page-count-exceeds-file" and fbytes is not None and page_count_exceeds_file(fbytes):
                return k["id"]
            continue
        if cls == "timeout":
            if pred == "trailer-length-exceeds-file" and fbytes is not None and len(fbytes) >= 12 and fbytes[-4:] == b"PAR1" and \
                    int.from_bytes(fbytes[-8:-4], "little") + 8 > len(fbytes) and int.from_bytes(fbytes[-8:-4], "little") >= 1 << 28:
                return k["id"]     # the zero-filled allocation itself (below the address space limit) takes longer than the watchdog
            if pred == "rowgroup-num-rows-exceeds-file" and fbytes is not None and row_count_lie(fbytes):
                return k["id"]
            if pred == "chunk-range-beyond-file" and fbytes is not None and chunk_range_beyond_file(fbytes):
                return k["id"]
            continue
        if site is None or "files" not in m:
            continue
        if site.rsplit(":", 1)[0] not in m["files"]:
            continue
        if pred == "thrift-list-count-exceeds-input" and not (fbytes is not None and lying_list_count(fbytes)):
            continue
        if text:
            if re.search(m["msg"], text):
                return k["id"]
        elif site in m.get("sites", []):
            return k["id"]
    return None


def row_count_lie(fb):
    """does the footer announce far more rows in a row group than the file could hold?  (RowGroup.num_rows, field 3)"""
    try:
        flen = int.from_bytes(fb[-8:-4], "little")
        st = len(fb) - 8 - flen
        if st < 4 or fb[-4:] != b"PAR1":
            return False
        tree, _ = parse_value(fb, st, T_STRUCT)
        for f in tree[1]:
            if f[0] == 4 and f[2][0] == "list":
                for rg in f[2][3]:
                    for g in rg[1]:
                        if g[0] == 3 and g[2][0] == "int" and (g[2][2] > 64 * len(fb) + 100000 or g[2][2] < 0):
                            return True
    except (Bad, IndexError, TypeError):
        return False
    return False


def chunk_range_beyond_file(fb):
    """does some column chunk of the footer lie outside the file?  (ColumnChunkMetaData::byte_range as reader.rs uses it)"""
    try:
        flen = int.from_bytes(fb[-8:-4], "little")
        st = len(fb) - 8 - flen
        if st < 4 or fb[-4:] != b"PAR1":
            return False
        tree, _ = parse_value(fb, st, T_STRUCT)
        for f in tree[1]:
            if f[0] == 4 and f[2][0] == "list":
                for rg in f[2][3]:
                    for g in rg[1]:
                        if g[0] == 1 and g[2][0] == "list":
                            for cc in g[2][3]:
                                for h in cc[1]:
                                    if h[0] == 3 and h[2][0] == "struct":
                                        fl = {x[0]: x[2] for x in h[2][1]}
                                        start = fl[11][2] if 11 in fl else fl[9][2]
                                        ln = fl[7][2]
                                        if start < 0 or ln < 0 or start + ln > len(fb):
                                            return True
    except (Bad, IndexError, TypeError, KeyError):
        return False
    return False


def page_count_exceeds_file(fb):
    """does a page header announce far more values than the file could hold?  (num_values of a dictionary / data page)"""
    try:
        f = PqFile("probe", fb)
        for (ci, a, j, tree, e) in f.allpages:
            fl = {x[0]: x[2] for x in tree[1]}
            for fid in (5, 7, 8):
                if fid in fl and fl[fid][0] == "struct":
                    for x in fl[fid][1]:
                        if x[0] == 1 and x[2][0] == "int" and (x[2][2] > 64 * len(fb) + 100000 or x[2][2] < 0):
                            return True
    except Exception:
        return False
    return False


def lying_list_count(fb):
    """does some thrift struct in the file (footer or a page header) announce a list longer than the remaining input?"""
    try:
        flen = int.from_bytes(fb[-8:-4], "little")
        starts = [len(fb) - 8 - flen]
    except Exception:
        return False
    for st in starts:
        if st < 0:
            continue
        if scan_lying(fb, st, len(fb) - 8):
            return True
    return False


def scan_lying(b, i, end):
    """walk a struct leniently; True as soon as a list header's count exceeds what is left"""
    stack = [("s", 0)]
    try:
        while stack and i < end:
            kind, n = stack[-1]
            if kind == "s":
                h = b[i]
                i += 1
                fty, delta = h & 15, h >> 4
                if fty == 0:
                    stack.pop()
                    continue
                if not delta:
                    _, i = rd_vlq(b, i)
                ty = fty
            else:
                if n[0] == 0:
                    stack.pop()
                    continue
                n[0] -= 1
                ty = n[1]
                if ty in (1, 2):
                    i += 1
                    continue
            if ty in (1, 2):
                continue
            if ty == 3:
                i += 1
            elif ty in (4, 5, 6):
                _, i = rd_vlq(b, i)
            elif ty == 7:
                i += 8
            elif ty == 8:
                ln, i = rd_vlq(b, i)
                if ln > end - i:
                    return False
                i += ln
            elif ty == 12:
                stack.append(("s", 0))
            elif ty == 9:
                h = b[i]
                i += 1
                cnt = h >> 4
                if cnt == 15:
                    cnt, i = rd_vlq(b, i)
                cnt &= 0xffffffff
                if cnt >= 1 << 31 or cnt > end - i:
                    return True
                stack.append(("l", [cnt, h & 15]))
            else:
                return False
    except (Bad, IndexError):
        return False
    return False


# ---------------------------------------------------------------- running cases
def limited(gverif):
    os.makedirs(WDIR, exist_ok=True)
    wrap = os.path.join(WDIR, "gverif_lim.sh")
    body = "#!/bin/sh\nulimit -v %d\nexec %s \"$@\"\n" % (AS_LIMIT_KB, gverif)
    if not os.path.exists(wrap) or open(wrap).read() != body:
        open(wrap, "w").write(body)
        os.chmod(wrap, 0o755)
    return wrap


def run_parallel(wrap, cases, timeout=1500):
    if not cases:
        return []
    shards = [cases[i::WORKERS] for i in range(WORKERS)]
    with ThreadPoolExecutor(WORKERS) as ex:
        outs = list(ex.map(lambda sh: common.run_harness(wrap, "sql", sh, timeout=timeout) if sh else [], shards))
    res = {}
    for sh, out in zip(shards, outs):
        for c, r in zip(sh, out):
            res[c["id"]] = r
    return [res[c["id"]] for c in cases]


def run_single(wrap, case):
    """one case in a process of its own, stderr kept: {"results":..} | {"timeout":..} | {"abort": rc}, all with "stderr" """
    import subprocess
    try:
        p = subprocess.run([wrap, "sql"], input=json.dumps(case) + "\n", stdout=subprocess.PIPE, stderr=subprocess.PIPE,
                           timeout=case.get("timeout_s", 20) + 30, env=common.ENV, text=True)
        rc, out, err = p.returncode, p.stdout, p.stderr
    except subprocess.TimeoutExpired:
        return {"id": case["id"], "timeout": case.get("timeout_s", 20), "stderr": ""}
    for line in out.split("\n"):
        try:
            r = json.loads(line)
        except Exception:
            continue
        if r.get("id") == case["id"]:
            r["stderr"] = err[-1200:]
            return r
    return {"id": case["id"], "abort": rc, "stderr": err[-1200:]}


def run_singles(wrap, cases):
    if not cases:
        return []
    with ThreadPoolExecutor(WORKERS) as ex:
        return list(ex.map(lambda c: run_single(wrap, c), cases))


BIG = 4096


def sql_case(cid, path, fn="read_parquet", size=0):
    if size > BIG and fn == "read_parquet":
        # /repo/testdata/parquet/userdata0.parquet: strings with line separators break the line protocol; read every
        # column but return numbers only
        stmts = ["select registration_dttm, id, salary from read_parquet('%s')" % path,
                 "select count(first_name), count(last_name), count(email), count(gender), count(ip_address), count(cc), count(country), "
                 "count(birthdate), count(title), max(length(comments)) from read_parquet('%s')" % path]
    else:
        stmts = ["select * from %s('%s')" % (fn, path), "select count(*) from %s('%s')" % (fn, path)]
    return {"id": cid, "mode": "threaded", "threads": 2, "timeout_s": 20, "stmts": stmts}


def evaluate(wrap, items, klist, stats, viol, known, label):
    """items: [(id, path, bytes, how, fn)] -> classify, det re-run of aborts for the message, match classes"""
    cases = [sql_case(i, p, fn, len(b)) for (i, p, b, how, fn) in items]
    t_a = time.time()
    real = run_parallel(wrap, cases)
    cl = [classify(r) for r in real]
    stats.setdefault("phase_seconds", {}).setdefault(label, []).append(round(time.time() - t_a, 1))
    # every failing case again in a process of its own (clean stderr: the panic site; also clears cases blamed for a
    # neighbour's watchdog exit), then the aborts under the deterministic scheduler for the panic message
    redo = [k for k, c in enumerate(cl) if c[0] not in ("rows", "error", "timeout")]
    for k, r in zip(redo, run_singles(wrap, [cases[k] for k in redo])):
        cl[k] = classify(r)
    redo = [k for k, c in enumerate(cl) if c[0] == "abort" and c[1] != "stack-overflow"]
    det_msg = {}
    for k, r in zip(redo, run_singles(wrap, [dict(cases[k], mode="det", partitions=2) for k in redo])):
        c2 = classify(r)
        det_msg[k] = c2[2] if c2[0] == "panic" else ""
        if cl[k][1] is None and c2[0] == "panic" and c2[1]:
            cl[k] = ("abort", c2[1], cl[k][2])
    stats["phase_seconds"][label].append(round(time.time() - t_a, 1))
    for k in det_msg:
        if not cl[k][2] and det_msg[k]:
            cl[k] = (cl[k][0], cl[k][1], det_msg[k])
    for k, ((cid, path, fb, how, fn), (cls, site, msg)) in enumerate(zip(items, cl)):
        stats["outcomes"][cls] = stats["outcomes"].get(cls, 0) + 1
        stats["by_kind"].setdefault(label, {}).setdefault(cls, 0)
        stats["by_kind"][label][cls] += 1
        if cls in ("rows", "error"):
            if cls == "error":
                stats["error_texts"].add(re.sub(r"[0-9]+", "#", msg)[:60])
            continue
        kid = match_known(cls, site, msg, det_msg.get(k, ""), klist, fb)
        rep = {"outcome": cls, "site": site, "message": msg or det_msg.get(k, ""), "mutation": how, "file_hex": fb.hex() if len(fb) <= 4096 else None,
               "file_len": len(fb), "sql": cases[k]["stmts"], "path": path,
               "how": "write file_hex to a file, run the sql through `gverif sql` (mode threaded) under ulimit -v %d" % AS_LIMIT_KB}
        if kid:
            e = known.setdefault(kid, {"n": 0, "example": None, "sites": set()})
            e["n"] += 1
            e["sites"].add(site or (msg or "")[:50])
            if e["example"] is None or len(fb) < e["example"]["file_len"]:
                e["example"] = rep
        else:
            viol.append({"what": "malformed %s input: %s%s" % ("CSV" if fn == "read_csv" else "Parquet", cls,
                                                               " at " + site if site else (": " + msg[:80] if msg else "")),
                         "replay": rep, "no_input": False})
    return cl


# ---------------------------------------------------------------- W: witnesses of the refutations
def coq_witnesses():
    names = ["w_footer_len", "w_set", "w_map", "w_double", "w_vlq_field", "w_fid", "w_list_count", "w_list_negative",
             "w_oob_vlq", "w_oob_rle", "w_oob_unpack", "w_oob_dbp", "w_panic_dbp"]
    body = "From Coq Require Import NArith List.\nFrom GV Require Import model.PqFooter proofs.PqFooterProofs.\n" + \
           "Import ListNotations.\nSet Printing Depth 1000000.\nSet Printing Width 1000000.\n" + \
           "".join("Eval vm_compute in %s.\n" % n for n in names)
    rc, out = common.coq_eval("c19w", body)
    vals = re.findall(r"=\s*\[([^\]]*)\]\s*:\s*list N", out)
    if rc != 0 or len(vals) != len(names):
        return None, out[-800:]
    return {n: bytes(int(x) for x in v.replace("\n", " ").split(";") if x.strip()) for n, v in zip(names, vals)}, ""


def wrap_footer(meta):
    return b"PAR1" + meta + len(meta).to_bytes(4, "little") + b"PAR1"


def stage_witnesses(wrap, gvpq, flags, klist, stats, viol, known):
    ws, err = coq_witnesses()
    if ws is None:
        viol.append({"what": "witnesses of props/C19.v could not be evaluated", "replay": {"log": err}, "no_input": True})
        return {"n": 0, "mismatch": []}
    # (name, file bytes, flag that repairs it, expected class, expected site/message pattern)
    plan = [
        ("w_footer_len", ws["w_footer_len"], "footer_len_checked", "oom", r"memory allocation of 4294967292 bytes failed"),
        ("w_set", wrap_footer(ws["w_set"]), "setmap_implemented", "panic", r"^not implemented"),
        ("w_map", wrap_footer(ws["w_map"]), "setmap_implemented", "panic", r"^not implemented"),
        ("w_double", wrap_footer(ws["w_double"]), "double_checked", "panic", r"range end index 8 out of range for slice of length 3"),
        ("w_vlq_field", wrap_footer(ws["w_vlq_field"]), "vlq_shift_checked", "panic", r"attempt to shift left with overflow"),
        ("w_fid", wrap_footer(ws["w_fid"]), "fid_add_checked", "panic", r"attempt to add with overflow"),
        # FileMetaData{1: version = 1, 2: schema = <list header of the witness>}
        ("w_list_count", wrap_footer(bytes([0x15, 0x02, 0x19]) + ws["w_list_count"] + b"\x00"), "list_len_checked", "oom",
         r"memory allocation of 257698037640 bytes failed"),
        ("w_list_negative", wrap_footer(bytes([0x15, 0x02, 0x19]) + ws["w_list_negative"] + b"\x00"), "list_len_checked", "panic",
         r"capacity overflow"),
    ]
    items = []
    for name, fb, flag, cls, pat in plan:
        p = os.path.join(WDIR, "%s.parquet" % name)
        open(p, "wb").write(fb)
        items.append((name, p, fb, "witness %s of proofs/PqFooterProofs.v" % name, "read_parquet"))
    v0 = len(viol)
    cl = evaluate(wrap, items, klist, stats, viol, known, "witness")
    mism = []
    for (name, fb, flag, cls, pat), (rc, site, msg) in zip(plan, cl):
        if flags.get(flag):
            ok = rc in ("error", "rows")
        else:
            ok = rc == cls and re.search(pat, msg or "") is not None
        if not ok:
            mism.append({"witness": name, "file_hex": fb.hex()[:400], "model_predicts": "error" if flags.get(flag) else "%s /%s/" % (cls, pat),
                         "engine": [rc, site, msg]})
    # bit-level helpers through the real decoders
    bits = [("w_oob_vlq", {"op": "vlq", "hex": ws["w_oob_vlq"].hex()}, "OOB"),
            ("w_oob_rle", {"op": "rle", "t": "u8", "w": 8, "hex": ws["w_oob_rle"].hex(), "reads": [1]}, "OOB"),
            ("w_oob_unpack", {"op": "unpack", "t": "u8", "w": 5, "hex": ws["w_oob_unpack"].hex(), "reads": [2]}, "OOB"),
            ("w_oob_dbp", {"op": "dbp", "t": "i32", "hex": ws["w_oob_dbp"].hex(), "reads": [5]}, "OOB"),
            # errors since the repairs of the miniblock count / bit width tests (model/PqDelta.v dbp_new, PqBits.v bit_unpack)
            ("w_panic_dbp", {"op": "dbp", "t": "i32", "hex": ws["w_panic_dbp"].hex(), "reads": [5]}, "ERR"),
            ("w_panic_width", {"op": "unpack", "t": "u64", "w": 65, "hex": "010203040506070809", "reads": [1]}, "ERR"),
            ("w_over_read", {"op": "dbp", "t": "i32", "hex": "80010404020200000000", "reads": [5]}, "ERR")]
    real = common.run_harness(gvpq, [], [dict(c, id=n) for n, c, _ in bits], timeout=120)
    for (n, c, want), r in zip(bits, real):
        got = (r.get("out") or "ABORT").split()[0]
        stats["outcomes"]["bits:" + got] = stats["outcomes"].get("bits:" + got, 0) + 1
        if got != want:
            mism.append({"witness": n, "gv_pq_case": c, "model_predicts": want, "engine": r})
        else:
            kid = "cursor-unchecked-read" if want == "OOB" else None
            if kid and any(k["id"] == kid for k in klist):
                e = known.setdefault(kid, {"n": 0, "example": None, "sites": set()})
                e["n"] += 1
                e["sites"].add("gv_pq " + n)
                if e["example"] is None:
                    e["example"] = {"gv_pq_case": c, "real": r.get("out"), "file_len": 10 ** 9}
    return {"n": len(plan) + len(bits), "mismatch": mism}


# ---------------------------------------------------------------- P: page body loading, model vs engine
def stage_pages(rng, wrap, gmodel, flags, klist, stats, viol, known):
    """lies in uncompressed_page_size / compressed_page_size of the only data page of a required INT32 PLAIN column (v1 and
    v2 pages): the outcome predicted by model/PqFooter.v load_page_plain (evaluated by coqc) vs the engine"""
    chk = flags.get("page_copy_len_checked")
    if chk is None:
        return {"n": 0, "mismatch": [{"what": "page_copy_len_checked could not be scanned from page_reader.rs"}]}
    items, params = [], []
    for v2 in (0, 1):
        n = 12
        c = c10.gen_column(rng, "c0", "i32", "plain", False, "none", n)
        c["pages"] = [n]
        case = {"id": "pl%d" % v2, "v2": v2, "rgs": [n], "created_by": "gverif fault", "lvl": (8, 1), "cols": [c10.rid_column(n), c], "nrows": n}
        m = json.loads(common.run_model(gmodel, "write", [c10.spec_line(case, "hex")])[0])
        f = PqFile("pl%d" % v2, bytes.fromhex(m["hex"]))
        if not f.pages:
            continue
        a, j, tree, e = f.pages[0]
        size0 = f.chunks()[-1][1]
        fl = {x[0]: x[2][2] for x in tree[1] if x[2][0] == "int"}
        for (k, kind, path, v) in f.page_sites(0):
            if path not in ((2,), (3,)):
                continue
            for lie in (-1, 0, v - 2, v + 2, 2 ** 31 - 1, -2 ** 31, 1):
                nh = Ser(k, lie).ser(tree)
                d = len(nh) - (j - a)
                usz, csz = (lie, fl[3]) if path == (2,) else (fl[2], lie)
                fb = f.page_lie(0, k, lie)
                p = os.path.join(WDIR, "pl_%d_%d_%d.parquet" % (v2, path[0], lie))
                open(p, "wb").write(fb)
                items.append(("pl_%d_%d_%d" % (v2, path[0], lie), p, fb,
                              "data page %s header field %d (%s) %d -> %d" % ("v2" if v2 else "v1", path[0], "uncompressed_page_size" if path == (2,) else "compressed_page_size", v, lie),
                              "read_parquet"))
                params.append((size0 + d, len(nh), usz, csz))
    body = "From Coq Require Import NArith ZArith.\nFrom GV Require Import model.PqFooter.\nOpen Scope N_scope.\n" + \
           "".join("Eval vm_compute in (load_page_plain %s %d %d (%d)%%Z (%d)%%Z).\n" % ("true" if chk else "false", cl_, off, u, cs)
                   for (cl_, off, u, cs) in params)
    rc, out = common.coq_eval("c19p", body)
    preds = re.findall(r"p_out := (TOk \d+|TErr|TPanic \d+|TFuel);\s*p_alloc := (\d+)", out)
    if rc != 0 or len(preds) != len(params):
        return {"n": 0, "mismatch": [{"what": "model evaluation failed", "log": out[-600:]}]}
    cl = evaluate(wrap, items, klist, stats, viol, known, "page-size-lies")
    mism = []
    for it, prm, (po, pa), (cls, site, msg) in zip(items, params, preds, cl):
        if po == "TErr":
            ok = cls == "error"
        elif po.startswith("TOk"):
            ok = cls in ("rows", "error")
        elif po == "TPanic 6":
            ok = cls in ("abort", "panic") and "page_reader.rs" in (site or "") and "copy_from_slice" in (msg or "")
        elif po == "TPanic 7":
            ok = cls in ("abort", "panic") and "page_reader.rs" in (site or "") and "attempt to add with overflow" in (msg or "")
        else:
            ok = False
        if not ok:
            mism.append({"case": it[3], "file_hex": it[2].hex(), "model_input": {"chunk_len": prm[0], "chunk_offset": prm[1], "uncompressed": prm[2], "compressed": prm[3]},
                         "model_predicts": po, "engine": [cls, site, msg]})
    return {"n": len(items), "mismatch": mism}


# ---------------------------------------------------------------- P2: compressed pages (the writer only makes uncompressed ones)
def snappy_literal(data):
    """a valid raw snappy stream made of literals only"""
    out = bytearray(wr_vlq(len(data)))
    for i in range(0, len(data), 60):
        chunk = data[i:i + 60]
        out.append((len(chunk) - 1) << 2)
        out += chunk
    return bytes(out)


def gzip_bytes(data):
    import zlib
    co = zlib.compressobj(6, zlib.DEFLATED, 31)
    return co.compress(data) + co.flush()


CODECS = {"snappy": (1, snappy_literal), "gzip": (2, gzip_bytes)}


def set_field(struct, fid, value):
    for f in struct[1]:
        if f[0] == fid:
            if f[2][0] == "int":
                f[2][2] = value
            elif f[2][0] == "bool":
                f[2][1] = bool(value)
                f[1] = T_TRUE if value else T_FALSE
            return True
    return False


def compress_last_chunk(f, codec):
    """the same file with the pages of the last column chunk compressed (v1: whole body; v2: everything after the levels)"""
    cid, fn = CODECS[codec]
    first = f.pages[0][0]
    out = bytearray(f.b[:first])
    for (a, j, tree, e) in f.pages:
        tree = copy.deepcopy(tree)
        body = f.b[j:e]
        fl = {x[0]: x[2] for x in tree[1]}
        if 8 in fl:
            f8 = {x[0]: x[2] for x in fl[8][1]}
            lv = f8[5][2] + f8[6][2]
            nb = body[:lv] + fn(body[lv:])
            set_field(fl[8], 7, True)
        else:
            nb = fn(body)
        set_field(tree, 3, len(nb))
        out += Ser().ser(tree) + nb
    d = len(out) - f.foot_start
    tr = copy.deepcopy(f.tree)
    tmp = PqFile.__new__(PqFile)
    tmp.tree = tr
    md = tmp.chunks()[-1][2]
    set_field(md, 4, cid)
    for x in md[1]:
        if x[0] == 7:
            x[2][2] += d
    foot = Ser().ser(tr)
    return bytes(out) + foot + len(foot).to_bytes(4, "little") + b"PAR1"


def stage_pages_compressed(rng, wrap, gmodel, flags, klist, stats, viol, known):
    """compressed v1 / v2 data pages: lies in the sizes, the level byte lengths and the counts of the page header; for the
    v2 slicing arithmetic the outcome predicted by model/PqFooter.v load_page_v2_compressed (both codec oracles) vs the engine"""
    le_c, le_u = flags.get("v2_levels_le_compressed"), flags.get("v2_levels_le_uncompressed")
    if le_c is None or le_u is None:
        return {"n": 0, "mismatch": [{"what": "v2 level length checks could not be scanned from page_reader.rs"}]}
    items, meta, base = [], [], []
    for (v2, codec) in ((0, "snappy"), (1, "snappy"), (1, "gzip"), (0, "gzip")):
        n = 120
        c = c10.gen_column(rng, "c0", "i32", "plain", True, "rand", n, style="small")
        c["pages"] = [n]
        case = {"id": "pc", "v2": v2, "rgs": [n], "created_by": "gverif fault", "lvl": (8, 1), "cols": [c10.rid_column(n), c], "nrows": n}
        m = json.loads(common.run_model(gmodel, "write", [c10.spec_line(case, "hex")])[0])
        f0 = PqFile("pc", bytes.fromhex(m["hex"]))
        if not f0.pages:
            continue
        f = PqFile("pc%d%s" % (v2, codec), compress_last_chunk(f0, codec))
        name = "pc_v%d_%s" % (2 if v2 else 1, codec)
        p = os.path.join(WDIR, name + ".parquet")
        open(p, "wb").write(f.b)
        base.append((name, p, f.b, "compressed base file %s" % name, "read_parquet"))
        if not f.pages:
            continue
        a, j, tree, e = f.pages[0]
        size0 = f.chunks()[-1][1]
        fl = {x[0]: x[2] for x in tree[1]}
        usz0, csz0 = fl[2][2], fl[3][2]
        f8 = {x[0]: x[2][2] for x in fl[8][1] if x[2][0] == "int"} if 8 in fl else {}
        for (k, kind, path, v) in f.page_sites(0):
            if path in ((2,), (3,)):
                vals = [-1, 0, v - 2, v + 2, 2 ** 31 - 1, -2 ** 31, 1]
            elif path in ((8, 5), (8, 6)):
                vals = [-1, 1, v + 1, max(0, v - 1), usz0 + 1, csz0 + 1, min(usz0, csz0) + 1, max(usz0, csz0) + 1, usz0 - v, csz0, 2 ** 31 - 1, -2 ** 31]
            elif path in ((8, 1), (8, 2), (8, 3), (5, 1)):
                vals = [-1, 0, v + 5, 2 ** 31 - 1]
            else:
                continue
            for lie in sorted(set(vals)):
                if lie == v:
                    continue
                nh = Ser(k, lie).ser(tree)
                d = len(nh) - (j - a)
                fb = f.page_lie(0, k, lie)
                cid = "%s_%s_%d" % (name, "_".join(str(x) for x in path), lie)
                pp = os.path.join(WDIR, cid + ".parquet")
                open(pp, "wb").write(fb)
                items.append((cid, pp, fb, "%s page header field %s %d -> %d" % (name, "/".join(str(x) for x in path), v, lie), "read_parquet"))
                prm = None
                if v2 and path in ((2,), (3,), (8, 5), (8, 6)):
                    h = {(2,): usz0, (3,): csz0, (8, 5): f8[5], (8, 6): f8[6]}
                    h[path] = lie
                    prm = (size0 + d, len(nh), h[(2,)], h[(3,)], h[(8, 6)], h[(8, 5)])
                meta.append(prm)
    vb = evaluate(wrap, base, klist, stats, viol, known, "compressed-valid")
    mism = [{"case": b[3], "file_hex": b[2].hex()[:600], "model_predicts": "rows (valid file)", "engine": list(c)} for b, c in zip(base, vb) if c[0] != "rows"]
    body = "From Coq Require Import NArith ZArith.\nFrom GV Require Import model.PqFooter.\nOpen Scope N_scope.\n"
    bb = lambda x: "true" if x else "false"
    for prm in meta:
        if prm:
            for ok in (True, False):
                body += "Eval vm_compute in (load_page_v2_compressed %s %s %d %d (%d)%%Z (%d)%%Z (%d)%%Z (%d)%%Z %s).\n" % (
                    bb(le_c), bb(le_u), prm[0], prm[1], prm[2], prm[3], prm[4], prm[5], bb(ok))
    rc, out = common.coq_eval("c19q", body)
    preds = re.findall(r"p_out := (TOk \d+|TErr|TPanic \d+|TFuel);\s*p_alloc := (\d+)", out)
    if rc != 0 or len(preds) != 2 * sum(1 for x in meta if x):
        return {"n": 0, "mismatch": mism + [{"what": "model evaluation failed", "log": out[-600:]}]}
    cl = evaluate(wrap, items, klist, stats, viol, known, "compressed-page-lies")
    pi = 0
    for it, prm, (cls, site, msg) in zip(items, meta, cl):
        if not prm:
            continue
        pa, pb = preds[pi][0], preds[pi + 1][0]
        pi += 2
        in_reader = "page_reader.rs" in (site or "")
        if pa.startswith("TPanic"):
            want = "range end index" if pa == "TPanic 8" else "attempt to subtract with overflow"
            ok = cls in ("abort", "panic") and in_reader and want in (msg or "")
        else:
            ok = not (cls in ("abort", "panic") and in_reader)
            if pa == "TErr" and pb == "TErr" and cls == "rows":
                ok = False
        if not ok:
            mism.append({"case": it[3], "file_hex": it[2].hex() if len(it[2]) < 3000 else None,
                         "model_input": {"chunk_len": prm[0], "chunk_offset": prm[1], "uncompressed": prm[2], "compressed": prm[3], "rep_len": prm[4], "def_len": prm[5]},
                         "model_predicts": [pa, pb], "engine": [cls, site, msg]})
    return {"n": len(items) + len(base), "mismatch": mism, "modelled": pi // 2}


# ---------------------------------------------------------------- S: valid files and their mutations
COMBOS = [("i32", "plain", False, "none", 0), ("i32", "dict", True, "rand", 0), ("i64", "dbp", False, "none", 1), ("i32", "bss", True, "alt", 1),
          ("bool", "plain", True, "rand", 0), ("bool", "rle", False, "none", 1), ("utf8", "plain", True, "alt", 1), ("utf8", "dict", False, "none", 0),
          ("utf8", "dlba", True, "rand", 0), ("utf8", "dba", False, "none", 1), ("binary", "plain", False, "none", 0), ("f64", "dict", True, "runs", 1),
          ("f32", "bss", False, "none", 0), ("i96", "plain", True, "alt", 0), ("i64", "dict", False, "none", 1), ("dec64", "plain", True, "rand", 0),
          ("ts_ms", "dbp", True, "alt", 1), ("u8", "plain", False, "none", 1), ("date", "dbp", True, "rand", 0), ("f64", "plain", True, "all", 1),
          ("binary", "dict", True, "rand", 1), ("i32", "dbp", True, "runs", 0)]
REPO_FILES = ["small.parquet", "ts_millis_i64.parquet", "capital_column_names.parquet", "glob_numbers/100.parquet", "userdata0.parquet"]


def make_files(rng, gmodel):
    cases = []
    for i, (t, e, opt, pat, v2) in enumerate(COMBOS):
        n = [12, 20, 33, 9][i % 4]
        c = c10.gen_column(rng, "c0", t, e, opt, pat, n)
        c["pages"] = [max(1, n)] if i % 3 else [max(1, n // 2)]
        cases.append({"id": "g%02d_%s_%s" % (i, t, e), "v2": v2, "rgs": [max(1, n)], "created_by": "gverif fault", "lvl": (8, 1),
                      "cols": [c10.rid_column(n), c], "nrows": n})
    metas = [json.loads(x) for x in common.run_model(gmodel, "write", [c10.spec_line(c, "hex") for c in cases], timeout=300)]
    files = []
    for c, m in zip(cases, metas):
        if "hex" in m:
            files.append(PqFile(c["id"], bytes.fromhex(m["hex"])))
    for rf in REPO_FILES:
        p = os.path.join(common.REPO, "testdata", "parquet", rf)
        if os.path.exists(p):
            try:
                files.append(PqFile("repo_" + rf.replace("/", "_").replace(".parquet", ""), open(p, "rb").read()))
            except Bad:
                pass
    return files


def mutations(rng, f, tier):
    """[(kind, description, bytes)]"""
    b, n = f.b, len(f.b)
    out = []
    small = n <= 600
    quick = tier == "quick"
    # truncations
    if small:
        ks = list(range(n)) if not quick else sorted(set(rng.shuffle(list(range(n)))[:8] + [0, 11, 12, n - 9, n - 8, n - 4, n - 1]))
    else:
        step = max(1, n // (12 if quick else 400))
        ks = sorted(set(list(range(0, n, step)) + list(range(max(0, n - (12 if quick else 600)), n))))
    for k in ks:
        if 0 <= k < n:
            out.append(("trunc", "truncate to %d of %d bytes" % (k, n), b[:k]))
    # single byte XOR 0xFF / single bit flips, every byte outside the plain value area of big files
    reg = f.regions
    idx = [k for k in range(n) if small or reg.get(k, "footer") != "data"]
    if not small:
        idx = [k for k in idx if reg.get(k) in ("footer", "trailer", "pagehdr", "levels") or k % 97 == 0]
        if len(idx) > (60 if quick else 6000):
            idx = sorted(rng.shuffle(idx)[:(60 if quick else 6000)])
    if quick and small:
        pri = [k for k in idx if reg.get(k) in ("pagehdr", "levels", "dict", "trailer")]
        rest = [k for k in idx if k not in set(pri)]
        idx = sorted(set(rng.shuffle(pri)[:22] + rng.shuffle(rest)[:12]))
    for k in idx:
        bb = bytearray(b)
        bb[k] ^= 0xFF
        out.append(("xor", "byte %d (%s) xor 0xFF" % (k, reg.get(k, "?")), bytes(bb)))
        if not quick or rng.chance(25):
            bit = rng.below(8)
            bb = bytearray(b)
            bb[k] ^= 1 << bit
            out.append(("bit", "byte %d (%s) bit %d flipped" % (k, reg.get(k, "?"), bit), bytes(bb)))
    # lies in the numeric fields of the footer and of the page headers of the last chunk
    if f.ok:
        sites = f.footer_sites()
        pick = sites if (not quick or len(sites) <= 14) else [sites[i] for i in sorted(rng.shuffle(list(range(len(sites))))[:14])]
        # regression of the repaired schema/types.rs off-by-one (18c236890): root num_children beyond the schema list, always
        for (k, kind, path, v) in sites:
            if path == (2, "[0]", 5):
                out.append(("lie-footer", "footer field 2/[0]/5 (int5) %d -> %d [regression 18c236890]" % (v, len(get_path(f.tree, (2,))[3])),
                            f.rebuild(f.tree, target=k, value=len(get_path(f.tree, (2,))[3]))))
        # regression of the repaired chunk range defects (f3bd995b4): chunk offset / size beyond the file, always
        for (k, kind, path, v) in sites:
            if len(path) >= 2 and path[-2:] == (3, 9):
                out.append(("lie-footer", "footer field %s (int6) %d -> 2147483647 [regression f3bd995b4]" % ("/".join(str(p) for p in path), v),
                            f.rebuild(f.tree, target=k, value=2 ** 31 - 1)))
            if len(path) >= 2 and path[-2:] == (3, 7):
                out.append(("lie-footer", "footer field %s (int6) %d -> 2^62 [regression f3bd995b4]" % ("/".join(str(p) for p in path), v),
                            f.rebuild(f.tree, target=k, value=2 ** 62)))
        for (k, kind, path, v) in pick:
            vals = [x for x in LIES.get(kind, LIES["int6"]) if x != v]
            if quick:
                vals = rng.shuffle(vals)[:1]
            for lie in vals:
                out.append(("lie-footer", "footer field %s (%s) %d -> %d" % ("/".join(str(p) for p in path), kind, v, lie),
                            f.rebuild(f.tree, target=k, value=lie)))
        for pi in range(len(f.pages)):
            for (k, kind, path, v) in f.page_sites(pi):
                vals = [x for x in LIES.get(kind, LIES["int6"]) if x != v]
                if quick:
                    vals = rng.shuffle(vals)[:2]
                for lie in vals:
                    try:
                        out.append(("lie-page", "page %d header field %s (%s) %d -> %d" % (pi, "/".join(str(p) for p in path), kind, v, lie),
                                    f.page_lie(pi, k, lie)))
                    except Exception:
                        pass
    return out


def stage_files(ctx, rng, wrap, gmodel, klist, stats, viol, known):
    files = make_files(rng, gmodel)
    items, seen = [], set()
    # the unmodified files must read
    for f in files:
        p = os.path.join(WDIR, f.name + ".parquet")
        open(p, "wb").write(f.b)
        items.append(("v_" + f.name, p, f.b, "unmodified", "read_parquet"))
    valid = evaluate(wrap, items, klist, stats, viol, known, "valid")
    for f, (cls, site, msg) in zip(files, valid):
        if cls != "rows":
            viol.append({"what": "a valid file does not read (%s)" % cls, "replay": {"file": f.name, "file_hex": f.b.hex()[:2000], "message": msg}, "no_input": False})
    items = []
    nmut = {}
    slow = 0
    for f in files:
        for j, (kind, how, fb) in enumerate(mutations(rng, f, ctx["tier"])):
            if fb == f.b:
                continue
            if ctx["tier"] == "quick" and row_count_lie(fb):
                slow += 1
                if slow > 6:        # they run into the 20 s watchdog (class rowgroup-num-rows-trusted)
                    continue
            key = hash(fb)
            if key in seen:
                continue
            seen.add(key)
            p = os.path.join(WDIR, "%s_m%d.parquet" % (f.name, j))
            open(p, "wb").write(fb)
            items.append(("%s_m%d" % (f.name, j), p, fb, "%s: %s" % (f.name, how), "read_parquet"))
            nmut[kind] = nmut.get(kind, 0) + 1
    # group by mutation kind for the counters
    by = {}
    for it in items:
        kind = it[3].split(": ", 1)[1].split(" ")[0]
        by.setdefault(kind, []).append(it)
    evaluate(wrap, items, klist, stats, viol, known, "parquet-mutation")
    for it in items:
        try:
            os.remove(it[1])
        except OSError:
            pass
    return {"files": len(files), "mutations": nmut, "cases": len(items), "distinct": len(seen),
            "footer_roundtrip_ok": sum(1 for f in files if f.ok), "sample": items[len(items) // 2][3] if items else None}


# ---------------------------------------------------------------- CSV
def csv_samples(rng, tier):
    big = b"a,b\n1," + b"x" * (10 * 1024 * 1024 if tier != "quick" else 1024 * 1024) + b"\n2,y\n"
    s = [("invalid-utf8", b"a,b\n\xff\xfe,2\n3,4\n"), ("invalid-utf8-header", b"\xff\xfe,b\n1,2\n"), ("truncated-utf8", b"a,b\n1,2\n\xc3"),
         ("overlong-utf8", b"a,b\n\xc0\xaf,2\n"), ("surrogate-utf8", b"a,b\n\xed\xa0\x80,1\n"), ("unterminated-quote", b'a,b\n"unterminated,2\n3,4\n'),
         ("unterminated-quote-eof", b'a,b\n1,2\n"' + b"x" * 5000), ("quote-in-field", b'a,b\n"x"y,2\n3,4\n'), ("lone-quote", b'"'),
         ("ragged-short", b"a,b\n1\n2,3\n"), ("ragged-long", b"a,b\n1,2,3,4\n5,6\n"), ("ragged-mixed", b"a,b,c\n1\n2,3,4,5,6\n\n7,8,9\n"),
         ("nul", b"a,b\n1,\x002\n3,4\n"), ("nul-only", b"\x00\x00\x00"), ("nul-header", b"\x00a,b\n1,2\n"), ("cr-only", b"\r\r\r"), ("bom-partial", b"\xef\xbb"),
         ("bom", b"\xef\xbb\xbfa,b\n1,2\n"), ("empty", b""), ("newline", b"\n"), ("commas", b",\n"), ("only-header", b"a,b"), ("crlf-mixed", b"a,b\r\n1,2\n3,4\r5,6\r\n"),
         ("huge-field", big), ("many-columns", b",".join(b"c%d" % i for i in range(3000)) + b"\n" + b",".join(b"1" for _ in range(3000)) + b"\n"),
         ("long-line-no-newline", b"1," * 40000), ("quotes-only", b'""""""""'), ("quoted-newlines", b'a,b\n"1\n\n\n",2\n'),
         ("big-int", b"a\n" + b"9" * 400 + b"\n"), ("float-junk", b"a\n1e99999\n-1e-99999\nnan\ninf\n"), ("dup-header", b"a,a,a\n1,2,3\n"),
         ("empty-header-names", b",,\n1,2,3\n"), ("type-flip-late", b"a\n" + b"1\n" * 3000 + b"x\n"), ("utf8-late", b"a,b\n" + b"1,2\n" * 3000 + b"\xc3")]
    n = 40 if tier == "quick" else 600
    alpha = [b",", b"\n", b'"', b"\r", b"a", b"1", b" ", b"\x00", b"\xff", b"\xc3", b"\xa9", b".", b"-", b"e", b"\t", b";", b"|"]
    for i in range(n):
        ln = 1 + rng.below(120)
        s.append(("soup%d" % i, b"".join(rng.choice(alpha) for _ in range(ln))))
    return s


def stage_csv(ctx, rng, wrap, klist, stats, viol, known):
    items = []
    for name, data in csv_samples(rng, ctx["tier"]):
        p = os.path.join(WDIR, "bad_%s.csv" % name)
        open(p, "wb").write(data)
        items.append(("c_" + name, p, data, "csv sample " + name, "read_csv"))
    evaluate(wrap, items, klist, stats, viol, known, "csv")
    return {"cases": len(items)}


# ---------------------------------------------------------------- run
def run(ctx):
    t0 = time.time()
    rng = common.Rng(ctx["seed"])
    out = {"violations": [], "known": [], "assumptions": [], "level": "partial"}
    flags = tables_fault.regenerate()
    klist = known_classes()
    gverif, _ = common.build_harness()
    gvpq, _ = common.build_harness(bin="gv_pq")
    pr = common.coq_props(PROPS)
    audit = [a for a in common.audit_sources() if "PqFooter" in a or "C19" in a or "TablesFault" in a]
    obligations = pr["declared"]
    bad_assum = common.check_assumptions(pr) if pr["ok"] else []
    proof_broken = (not pr["ok"]) or bool(bad_assum) or bool(audit)
    discharged = 0 if proof_broken else len(obligations)
    gmodel = common.build_ocaml("pq")
    wrap = limited(gverif)
    os.makedirs(WDIR, exist_ok=True)
    stats = {"outcomes": {}, "by_kind": {}, "error_texts": set()}
    viol, known = [], {}
    tt = [time.time()]
    w = stage_witnesses(wrap, gvpq, flags, klist, stats, viol, known) if pr["ok"] else {"n": 0, "mismatch": []}
    tt.append(time.time())
    pg = stage_pages(common.Rng(ctx["seed"] ^ 0x19), wrap, gmodel, flags, klist, stats, viol, known) if pr["ok"] else {"n": 0, "mismatch": []}
    w = {"n": w["n"] + pg["n"], "mismatch": w["mismatch"] + pg["mismatch"]}
    pc = stage_pages_compressed(common.Rng(ctx["seed"] ^ 0x1919), wrap, gmodel, flags, klist, stats, viol, known) if pr["ok"] else {"n": 0, "mismatch": []}
    w = {"n": w["n"] + pc["n"], "mismatch": w["mismatch"] + pc["mismatch"]}
    tt.append(time.time())
    s = stage_files(ctx, rng, wrap, gmodel, klist, stats, viol, known)
    tt.append(time.time())
    c = stage_csv(ctx, rng, wrap, klist, stats, viol, known)
    tt.append(time.time())
    # one violation per (outcome, site/message) is enough in the report; keep the smallest input
    best = {}
    for v in viol:
        rp = v["replay"]
        key = (rp.get("outcome"), rp.get("site") or re.sub(r"[0-9]+", "#", rp.get("message") or "")[:60]) if "outcome" in rp else id(v)
        if key not in best or rp.get("file_len", 0) < best[key]["replay"].get("file_len", 0):
            cnt = best[key]["replay"].get("occurrences", 0) if key in best else 0
            best[key] = v
            v["replay"]["occurrences"] = cnt
        best[key]["replay"]["occurrences"] = best[key]["replay"].get("occurrences", 0) + 1
    out["violations"] = list(best.values())
    for kid, e in sorted(known.items()):
        what = [k["what"] for k in klist if k["id"] == kid]
        ex = e["example"] or {}
        out["known"].append("%s: %s [%d case(s); sites %s; smallest: %s]" % (
            kid, what[0] if what else "", e["n"], ",".join(sorted(x for x in e["sites"] if x))[:160],
            (ex.get("mutation") or json.dumps(ex.get("gv_pq_case")))[:120]))
    if w["mismatch"]:
        out["violations"].append({"what": "correspondence model (PqFooter.v / PqBits.v witnesses, page size lies) vs engine no longer holds (%d of %d cases)" % (len(w["mismatch"]), w["n"]),
                                  "replay": {"mismatches": w["mismatch"][:6], "source_flags": flags}, "no_input": not viol})
    if proof_broken:
        out["violations"].append({"what": "theorem(s) in %s no longer check" % PROPS,
                                  "replay": {"failed_at": pr.get("failed_at"), "log_tail": pr["log"][-1500:] if not pr["ok"] else "",
                                             "assumption_problems": bad_assum, "audit": audit, "source_flags": flags},
                                  "no_input": not viol})
    total = sum(v for k, v in stats["outcomes"].items())
    out["coverage"] = {
        "obligations": len(obligations), "discharged": discharged,
        "checker_cmd": "cd coq && make props/C19.vo (Print Assumptions parsed; Admitted/Axiom audit)",
        "trusted_base": ["Coq 8.16.1 kernel (vm_compute in the closed witness lemmas)",
                         "vlib/tables_fault.py source scanner (which bounds checks loader.rs / thrift.rs contain)",
                         "vlib/c19.py thrift rewriter and outcome classifier; harness/src/sql.rs, gv_pq.rs; ulimit -v as the allocation bound",
                         "modelled: footer loader, thrift reader primitives + skip path, list header allocation, vlq / bit_unpack / RLE / DELTA_BINARY_PACKED helpers (C10 models)",
                         "NOT modelled (searched only): format.rs generated struct readers, page_reader.rs, column readers, dictionary / plain / byte-stream-split decoders, compression codecs, schema conversion, the CSV reader"],
        "theorems": obligations,
        "evaluations": total, "distinct_nontrivial": s["distinct"] + c["cases"] + w["n"],
        "rule": "every case = one malformed input read by SELECT * and count(*); distinct = distinct malformed byte strings. Outcome classes counted below; "
                "panic/abort/timeout/oom outside findings/C19.json classes are violations.",
        "samples": [s["sample"], {"outcomes": stats["outcomes"]}],
        "outcomes": stats["outcomes"], "outcomes_by_stage": stats["by_kind"], "parquet_files": s["files"], "footer_roundtrip_ok": s["footer_roundtrip_ok"],
        "mutations": s["mutations"], "csv_cases": c["cases"], "witnesses_replayed": w["n"], "witness_mismatches": len(w["mismatch"]),
        "distinct_error_texts": len(stats["error_texts"]), "phase_seconds": stats.get("phase_seconds"), "source_flags": flags, "stage_seconds": [round(b - a, 1) for a, b in zip(tt, tt[1:])],
        "exhaustive": False,
    }
    out["level_claimed"] = "partial"
    out["level_note"] = ("proved: footer loader / thrift skip path / list allocation are total and linearly bounded WITH the listed checks, and never hang; "
                         "refuted with closed witnesses (replayed on the engine) for the source as it is; absence of crashes elsewhere in the reader is a search")
    out["assumptions"] = [
        "dev profile (debug assertions, overflow checks): an unchecked cursor over-read or an arithmetic overflow shows as a panic; in a release build the same input is an out-of-bounds read / wrap-around",
        "allocation bound = ulimit -v %d kB on the harness process; `oom` = the allocator's abort message" % AS_LIMIT_KB,
        "generated files are uncompressed and flat; compressed pages only via /repo/testdata/parquet files",
        "a worker-thread panic aborts the process (rayon), so page-level panics are class abort; the message is taken from a re-run under the deterministic scheduler"]
    out["wall"] = time.time() - t0
    return out


def replay(ctx, payload):
    rp = payload.get("replay", payload)
    gverif, _ = common.build_harness()
    wrap = limited(gverif)
    if rp.get("file_hex"):
        p = os.path.join(WDIR, "replay.bin")
        open(p, "wb").write(bytes.fromhex(rp["file_hex"]))
        fn = "read_csv" if "read_csv" in " ".join(rp.get("sql", [])) else "read_parquet"
        r = common.run_harness(wrap, "sql", [sql_case("replay", p, fn)], timeout=120)[0]
        print(json.dumps(r)[:2000])
        print(classify(r))
        return 0
    print(json.dumps(rp)[:3000])
    return 0
