"""Directed query families shared by the SQL-family checks (each returns work items for sqlrun.run)."""
from . import sqlgen


def using_family(rng, n, prefix):
    """JOIN ... USING with unmatched rows on both sides; the unqualified merged column is selected, grouped and
    filtered (RIGHT JOIN takes it from the right side, the other kinds from the left side)"""
    work = []
    for i in range(n):
        cols = [("c0", "i32"), ("c1", "i32")]
        lrows = [["I%d" % k, "I%d" % (10 * k)] for k in rng.shuffle([1, 2, 3, 4])[:3]] + [["N", "I0"]]
        rrows = [["I%d" % k, "I%d" % (100 * k)] for k in rng.shuffle([2, 3, 4, 5, 6])[:3]] + [["N", "I1"]]
        tables = [("t0", cols, lrows), ("t1", cols, rrows)]
        runs = []
        for kind in ("inner", "left", "right"):
            m = 2 if kind == "right" else 0
            j = "(join %s (fq (table 0)) (fq (table 1)) (cmp eq (col 0 0) (col 0 2)) 2 2)" % kind
            qs = [
                ("SELECT c0 AS r0, x1.c1 AS r1, x2.c1 AS r2 FROM t0 AS x1 %s JOIN t1 AS x2 USING (c0)" % kind.upper(),
                 "(select %s - - - ((col 0 %d) (col 0 1) (col 0 3)) 0)" % (j, m), ["i32", "i32", "i32"], ["r0", "r1", "r2"]),
                ("SELECT c0 AS r0, count(*) AS r1 FROM t0 AS x1 %s JOIN t1 AS x2 USING (c0) GROUP BY c0" % kind.upper(),
                 "(select %s - (((col 0 %d)) ((countstar 0 (const N)))) - ((col 0 0) (col 0 1)) 0)" % (j, m), ["i32", "i64"], ["r0", "r1"]),
                ("SELECT x1.c1 AS r0, x2.c1 AS r1 FROM t0 AS x1 %s JOIN t1 AS x2 USING (c0) WHERE (c0 IS NOT NULL)" % kind.upper(),
                 "(select %s (isnull 1 (col 0 %d)) - - ((col 0 1) (col 0 3)) 0)" % (j, m), ["i32", "i32"], ["r0", "r1"]),
            ]
            for sql, sx, tys, names in qs:
                q = sqlgen.Q(sql, sx, tys, names, {"using", "using_family", "join_" + kind})
                for hj in (True, False):
                    runs.append((q, {"partitions": rng.choice([1, 2]), "enable_hash_joins": hj, "enable_optimizer": bool(rng.below(2))}))
        work.append({"id": "%s-using-%d" % (prefix, i), "tables": tables, "runs": runs, "mode": "det", "det_partitions": 2,
                     "sched": {"kind": "fifo", "seed": 1}})
    return work


def limit_offset_family(rng, n, prefix):
    """LIMIT / OFFSET windows that start strictly inside a batch and span several batches, over a unique sort key
    and without ORDER BY (any window of the right size), batch sizes 3-8, partitions 1-4"""
    work = []
    for i in range(n):
        nrows = rng.choice([20, 30, 41])
        rows = [["I%d" % k, "I%d" % (k % 5)] for k in rng.shuffle(list(range(1, nrows + 1)))]
        tables = [("t0", [("c0", "i32"), ("c1", "i32")], rows)]
        runs = []
        for _ in range(6):
            bs = rng.choice([3, 4, 8])
            off = rng.choice([1, 2, 3, 5, 7, bs + 1, 2 * bs - 1])
            lim = rng.choice([bs, bs + 2, 2 * bs + 1, 10, nrows])
            q1 = sqlgen.Q("SELECT x1.c0 AS r0, x1.c1 AS r1 FROM t0 AS x1 ORDER BY r0 LIMIT %d OFFSET %d" % (lim, off),
                          "(order (select (fq (table 0)) - - - ((col 0 0) (col 0 1)) 0) ((0 0 0)) %d %d)" % (lim, off),
                          ["i32", "i32"], ["r0", "r1"], {"order", "limit_offset_family"}, ordered=True)
            q2 = sqlgen.Q("SELECT count(*) AS r0 FROM (SELECT x1.c0 AS o0 FROM t0 AS x1 LIMIT %d OFFSET %d) AS x2" % (lim, off),
                          "(select (fq (order (select (fq (table 0)) - - - ((col 0 0)) 0) () %d %d)) - (() ((countstar 0 (const N)))) - ((col 0 0)) 0)" % (lim, off),
                          ["i64"], ["r0"], {"limit_offset_family", "group"})
            for q in (q1, q2):
                runs.append((q, {"partitions": rng.choice([1, 1, 2, 4]), "batch_size": bs}))
        work.append({"id": "%s-limoff-%d" % (prefix, i), "tables": tables, "runs": runs, "mode": "det", "det_partitions": 1,
                     "sched": {"kind": "fifo", "seed": 1}})
    return work
