"""C20 — String and pattern functions are Unicode-correct; LIKE rewrites are equivalent."""
import time
from . import common, gen

PID = "C20"
PROPS = "props/C20.v"
MIN64 = -(1 << 63)
MAX64 = (1 << 63) - 1

# alphabet: ASCII, 2/3/4-byte code points, a combining mark, LIKE and regex metacharacters, newline
ALPHA = ["a", "b", "Z", "0", " ", "é", "日", "😀", "́", "%", "_", "\\", ".", "*", "+", "(", "[", "\n"]
ASCII = ["a", "b", "Z", "0", " ", "%", "_", "\\", ".", "*", "+", "(", "[", "\n"]
LIKE_ALPHA = ["a", "b", "%", "_", "\\", "\n", "日"]


def hx(s):
    return "x" + s.encode("utf-8").hex()


def rand_str(rng, maxlen=20):
    n = rng.choice([0, 1, 2, 3, 4, 5, 6, 8, 11, 12, 13, 14, 20]) if rng.chance(70) else rng.below(maxlen + 1)
    n = min(n, maxlen)
    pool = ASCII if rng.chance(30) else ALPHA      # pure-ASCII strings: byte length == char length
    if rng.chance(25):
        pool = ["a", "b", "é", "日"]                 # few symbols: repeated substrings
    return "".join(rng.choice(pool) for _ in range(n))


def rand_sub(rng, s, maxlen=3):
    """a short needle: a substring of s, or random"""
    if s and rng.chance(60):
        i = rng.below(len(s))
        return s[i:i + 1 + rng.below(maxlen)]
    return rand_str(rng, maxlen)


def small_int(rng, lo, hi):
    return lo + rng.below(hi - lo + 1)


# function table: name -> (arg kinds, sql call with column names, model line builder)
#   arg kinds: 's' main string (col s), 'a'/'b' string args (cols a, b), 'n'/'m' ints (cols n, m)
def model_line(fn, sql_fn, args, fuel):
    m = {"substring2": "substring_from", "substring3": "substring", "lpad2": "lpad", "rpad2": "rpad",
         "ltrim1": "ltrim", "rtrim1": "rtrim", "btrim1": "btrim"}.get(fn, fn)
    if fn == "substring2":
        return "%s %d %s %d" % (m, fuel, hx(args["s"]), args["n"])
    if fn == "substring3":
        return "%s %d %s %d %d" % (m, fuel, hx(args["s"]), args["n"], args["m"])
    if fn in ("lpad", "rpad"):
        return "%s %d %s %d %s" % (m, fuel, hx(args["s"]), args["n"], hx(args["a"]))
    if fn in ("lpad2", "rpad2"):
        return "%s %d %s %d %s" % (m, fuel, hx(args["s"]), args["n"], hx(" "))
    if fn in ("ltrim1", "rtrim1", "btrim1"):
        return "%s %s %s" % (m, hx(args["s"]), hx(" "))
    parts = [m]
    for k in FUNCS[fn][0]:
        parts.append(hx(args[k]) if k in "sab" else str(args[k]))
    return " ".join(parts)


FUNCS = {
    # name: (arg kinds, sql)
    "length": ("s", "length(s)"), "reverse": ("s", "reverse(s)"),
    "left": ("sn", "left(s, n)"), "right": ("sn", "right(s, n)"),
    "substring2": ("sn", "substring(s, n)"), "substring3": ("snm", "substring(s, n, m)"),
    "lpad": ("sna", "lpad(s, n, a)"), "rpad": ("sna", "rpad(s, n, a)"),
    "lpad2": ("sn", "lpad(s, n)"), "rpad2": ("sn", "rpad(s, n)"),
    "strpos": ("sa", "strpos(s, a)"), "replace": ("sab", "replace(s, a, b)"),
    "translate": ("sab", "translate(s, a, b)"),
    "ltrim": ("sa", "ltrim(s, a)"), "rtrim": ("sa", "rtrim(s, a)"), "btrim": ("sa", "btrim(s, a)"),
    "ltrim1": ("s", "ltrim(s)"), "rtrim1": ("s", "rtrim(s)"), "btrim1": ("s", "btrim(s)"),
    "repeat": ("sn", "repeat(s, n)"), "concat": ("sa", "concat(s, a)"),
    "starts_with": ("sa", "starts_with(s, a)"), "ends_with": ("sa", "ends_with(s, a)"),
    "contains": ("sa", "contains(s, a)"), "split_part": ("san", "split_part(s, a, n)"),
    # case mapping: the model has the ASCII rows only, so these get pure-ASCII strings
    "upper": ("s", "upper(s)"), "lower": ("s", "lower(s)"), "initcap": ("s", "initcap(s)"),
}
CASE_POOL = list("abzAZmQ019 -_.,+(/") + ["\n", "\t"]
INITCAP_SEPS = " \t\n\r\x0b\x0c-_.,"


def gen_args(rng, fn):
    s = rand_str(rng)
    if fn in ("upper", "lower", "initcap"):
        s = "".join(rng.choice(CASE_POOL) for _ in range(rng.below(21)))
    a = {"s": s}
    if fn in ("left", "right"):
        a["n"] = rng.choice([MIN64, MAX64, -MAX64]) if rng.chance(4) else small_int(rng, -8, 24)
    elif fn == "substring2":
        a["n"] = rng.choice([MIN64, MAX64, MIN64 + 1, -MAX64, 1 << 40]) if rng.chance(6) else small_int(rng, -6, 24)
    elif fn == "substring3":
        a["n"] = rng.choice([MIN64, MAX64, MIN64 + 1, -MAX64, 1 << 40]) if rng.chance(6) else small_int(rng, -6, 24)
        a["m"] = rng.choice([MAX64, MIN64, MAX64 - 1, 1 << 40]) if rng.chance(6) else small_int(rng, -3, 24)
    elif fn in ("lpad", "rpad", "lpad2", "rpad2"):
        a["n"] = rng.choice([MIN64, -MAX64, -(1 << 40)]) if rng.chance(3) else small_int(rng, -4, 30)
        if fn in ("lpad", "rpad"):
            a["a"] = "" if rng.chance(8) else rand_str(rng, 4)
    elif fn == "repeat":
        a["n"] = small_int(rng, -2, 5)
    elif fn == "split_part":
        a["a"] = rand_sub(rng, s, 2)
        a["n"] = small_int(rng, -4, 4)
    elif fn in ("replace", "translate"):
        a["a"] = rand_sub(rng, s, 3)
        a["b"] = rand_str(rng, 3)
    elif fn in ("ltrim", "rtrim", "btrim"):
        a["a"] = (s[:1] + s[-1:] + rng.choice(ALPHA)) if (s and rng.chance(60)) else rand_str(rng, 3)
    elif "a" in FUNCS[fn][0]:
        a["a"] = rand_sub(rng, s, 3)
        if fn in ("starts_with", "ends_with") and s and rng.chance(40):
            k = rng.below(len(s) + 1)
            a["a"] = s[:k] if fn == "starts_with" else s[len(s) - k:]
    return a


# the hand-found witnesses of the known findings and a few boundary tuples, evaluated on every run
WITNESSES = {
    "lpad": [{"s": "héllo", "n": 2, "a": "x"}, {"s": "x", "n": -1, "a": "y"}, {"s": "éab", "n": 2, "a": "x"},
             {"s": "abc", "n": 2, "a": ""}, {"s": "hi", "n": 5, "a": "xy"}, {"s": "日本", "n": 13, "a": "é😀"}],
    "rpad": [{"s": "abc", "n": -1, "a": "x"}, {"s": "abc", "n": 2, "a": ""}, {"s": "日本😀é", "n": 2, "a": "x"},
             {"s": "hi", "n": 5, "a": "xy"}, {"s": "abcdefghijkl", "n": 13, "a": "é"}],
    "substring2": [{"s": "hello", "n": 0}, {"s": "日本😀é", "n": 3}, {"s": "abcdefghijklm", "n": 13},
                   {"s": "hello", "n": -5}, {"s": "hello", "n": MAX64}, {"s": "hello", "n": MIN64}, {"s": "", "n": 0}],
    "substring3": [{"s": "hello", "n": 0, "m": 2}, {"s": "abcdef", "n": -2, "m": 5}, {"s": "hello", "n": 2, "m": -1},
                   {"s": "日本😀é", "n": 2, "m": 2}, {"s": "hello", "n": 2, "m": MAX64}, {"s": "hello", "n": MIN64, "m": MAX64},
                   {"s": "hello", "n": MAX64, "m": MAX64}, {"s": "hello", "n": -1, "m": 3}, {"s": "日本😀é", "n": 0, "m": 3}],
    "left": [{"s": "abc", "n": MIN64}, {"s": "日本😀é", "n": -1}, {"s": "abcdefghijklmnop", "n": 12}],
    "right": [{"s": "abc", "n": MIN64}, {"s": "日本😀é", "n": 2}, {"s": "abcdefghijklmnop", "n": -4}],
    "split_part": [{"s": "a,b", "a": ",", "n": 0}, {"s": "abc", "a": "", "n": -1}, {"s": "aaa", "a": "aa", "n": -1},
                   {"s": "a,b,c", "a": ",", "n": -1}, {"s": "日,本", "a": ",", "n": 2}, {"s": "a,b", "a": ",", "n": MIN64}],
    "strpos": [{"s": "日本😀é", "a": "😀"}, {"s": "abc", "a": ""}],
    "replace": [{"s": "aaa", "a": "aa", "b": "b"}, {"s": "日本日", "a": "日", "b": ""}],
    "translate": [{"s": "abcabc", "a": "aab", "b": "xy"}],
    "reverse": [{"s": "áb"}, {"s": "日本😀é"}],
    "initcap": [{"s": "a+b"}, {"s": "hello wORLD foo_bar 1a"}, {"s": "x1y Z9z"}],
    "upper": [{"s": "abc xyz AZ az 09 {`"}], "lower": [{"s": "ABC XYZ az AZ 09 [@"}],
}

COLS = [("id", "i32"), ("s", "text"), ("a", "text"), ("b", "text"), ("n", "i64"), ("m", "i64")]


def row_of(i, a):
    return ["I%d" % i, "S" + a["s"], "S" + a.get("a", ""), "S" + a.get("b", ""), "I%d" % a.get("n", 0), "I%d" % a.get("m", 0)]


def sql_for(fn, tuples):
    """statements that evaluate fn on the given (idx, args) tuples from a table"""
    stmts = [gen.create_table("t", COLS)] + gen.insert_rows("t", COLS, [row_of(i, a) for i, a in tuples], chunk=100)
    stmts.append("select id, %s from t" % FUNCS[fn][1])
    return stmts


def canon_cell(c):
    if c == "N":
        return "NULL"
    if c[0] == "S":
        return "S" + c[1:].encode("utf-8").hex()
    return c


def engine_outcome(res):
    """last statement result of a single-tuple case -> canonical outcome"""
    if "timeout" in res:
        return "FUEL"
    if "results" not in res:
        return "ABORT"
    last = res["results"][-1]
    if "panic" in last:
        return "PANIC"
    if "hang" in last:
        return "HANG"
    if not last.get("ok"):
        return "ERR"
    if len(res["results"]) < 1 or not last.get("rows"):
        return "NOROWS"
    return canon_cell(last["rows"][0][1])


def run_isolating(gverif, cases, expect_hang):
    """common.run_harness attributes a process exit to the case FOLLOWING a reported timeout, so
    cases expected to hit the watchdog run in a process of their own; any case still reported as
    `abort` is re-run alone once."""
    out = [None] * len(cases)
    normal = [i for i, h in enumerate(expect_hang) if not h]
    for i, r in zip(normal, common.run_harness(gverif, "sql", [cases[i] for i in normal], timeout=1800)):
        out[i] = r
    for i, h in enumerate(expect_hang):
        if h or "abort" in (out[i] or {}):
            out[i] = common.run_harness(gverif, "sql", [cases[i]], timeout=120)[0]
    return out


# ---- known classes (findings/C20.json): predicates on a failing case ------------------------------
def nchars(s):
    return len(s)


def classify_fn_failure(fn, a, impl, spec):
    """impl (== engine) differs from spec: which known class (findings/C20.json), if any.
    No class is left for C20: every difference from the definition is a violation."""
    return None


def stage_functions(ctx, rng, gverif, gmodel):
    quick = ctx["tier"] == "quick"
    per_fn = 110 if quick else 2500
    max_hang = 3 if quick else 12
    viol, known, evals, distinct = [], {}, 0, set()
    samples = []
    hang_budget = max_hang
    all_cases = []      # (fn, idx, args, impl, spec)
    lines = []
    for fn in FUNCS:
        fixed = WITNESSES.get(fn, [])
        for i in range(per_fn + len(fixed)):
            a = dict(fixed[i]) if i < len(fixed) else gen_args(rng, fn)
            # the fuel the theorems allow: substring consumes at most length(s) characters,
            # lpad/rpad append at most max(count, 0) pads
            fuel = len(a["s"]) if fn.startswith("substring") else max(0, min(a.get("n", 0), 4096))
            all_cases.append([fn, i, a])
            lines.append(model_line(fn, FUNCS[fn][1], a, fuel))
    mout = common.run_model(gmodel, "fn", lines, timeout=900)
    for c, o in zip(all_cases, mout):
        impl, spec = o.split(" | ")
        c += [impl, spec]
    # engine: bulk for tuples the model says return a value, single-tuple cases otherwise
    bulk, singles = [], []
    for fn in FUNCS:
        mine = [c for c in all_cases if c[0] == fn]
        okc = [c for c in mine if c[3] not in ("PANIC", "FUEL")]
        bad = [c for c in mine if c[3] in ("PANIC", "FUEL")]
        if okc:
            bulk.append({"id": "bulk-" + fn, "mode": "det", "partitions": 1, "timeout_s": 60,
                         "stmts": sql_for(fn, [(c[1], c[2]) for c in okc]), "_fn": fn, "_cases": okc})
        npanic = 0
        for c in bad:
            if c[3] == "FUEL":
                if hang_budget <= 0:
                    continue
                hang_budget -= 1
            else:
                npanic += 1
                if npanic > (12 if quick else 60):
                    continue
            singles.append({"id": "one-%s-%d" % (fn, c[1]), "mode": "det", "partitions": 1, "timeout_s": 4,
                            "stmts": sql_for(fn, [(c[1], c[2])]), "_fn": fn, "_cases": [c]})
    strip = lambda cs: [{k: v for k, v in c.items() if not k.startswith("_")} for c in cs]
    bres = common.run_harness(gverif, "sql", strip(bulk), timeout=1800)
    # a bulk statement that did not return rows: run its tuples one by one to find the culprit
    retry = []
    for case, res in zip(bulk, bres):
        last = res.get("results", [{}])[-1] if res.get("results") else {}
        if not last.get("ok") or len(res.get("results", [])) < len(case["stmts"]):
            for c in case["_cases"][: (200 if quick else 600)]:
                retry.append({"id": "retry-%s-%d" % (case["_fn"], c[1]), "mode": "det", "partitions": 1, "timeout_s": 3,
                              "stmts": sql_for(case["_fn"], [(c[1], c[2])]), "_fn": case["_fn"], "_cases": [c]})
            case["_failed"] = res
    singles += retry
    sres = run_isolating(gverif, strip(singles), [c["_cases"][0][3] == "FUEL" for c in singles])

    def judge(fn, a, impl, spec, eng, stmts):
        nonlocal evals
        evals += 1
        distinct.add((fn, a["s"], a.get("a"), a.get("b"), a.get("n"), a.get("m")))
        call = FUNCS[fn][1]
        info = {"function": fn, "call": call, "args": a, "engine": eng, "model_impl": impl, "spec": spec, "stmts": stmts}
        if eng != impl:
            # the transcription no longer describes the engine: a violation of the property if the
            # engine also differs from the definition, otherwise a broken correspondence
            kind = "engine differs from the faithful model and from the definition" if eng != spec else \
                "engine agrees with the definition but not with the faithful model (model out of date)"
            viol.append({"what": "%s: %s" % (call, kind), "replay": info, "no_input": False})
            return
        if impl == spec:
            return
        cls = classify_fn_failure(fn, a, impl, spec)
        if cls is None:
            viol.append({"what": "%s: result differs from the definition (%s vs %s)" % (call, eng, spec),
                         "replay": info, "no_input": False})
        else:
            known.setdefault(cls, info)

    for case, res in zip(bulk, bres):
        if "_failed" in case:
            continue
        rows = {int(r[0][1:]): canon_cell(r[1]) for r in res["results"][-1]["rows"]}
        for fn, i, a, impl, spec in case["_cases"]:
            judge(fn, a, impl, spec, rows.get(i, "MISSING"), sql_for(fn, [(i, a)]))
        if len(samples) < 3 and case["_cases"]:
            fn, i, a, impl, spec = case["_cases"][0]
            samples.append({"call": FUNCS[fn][1], "args": a, "engine": rows.get(i), "model": impl, "spec": spec})
    for case, res in zip(singles, sres):
        fn, i, a, impl, spec = case["_cases"][0]
        judge(fn, a, impl, spec, engine_outcome(res), strip([case])[0]["stmts"])
    return {"violations": viol, "known": known, "evaluations": evals, "distinct": len(distinct), "samples": samples,
            "bulk_fallbacks": [c["_fn"] for c in bulk if "_failed" in c], "singles": len(singles)}


# ---------------------------------------------------------------- LIKE
def all_strings(alpha, maxlen):
    out, cur = [""], [""]
    for _ in range(maxlen):
        cur = [s + c for s in cur for c in alpha]
        out += cur
    return out


def stage_like(ctx, rng, gverif, gmodel):
    quick = ctx["tier"] == "quick"
    pats = all_strings(LIKE_ALPHA, 3 if quick else 4)
    strs = all_strings(LIKE_ALPHA, 3)
    # beyond the exhaustive core: longer random patterns / strings over the big alphabet
    extra_s = [rand_str(rng) for _ in range(60 if quick else 600)]
    extra_p = []
    for _ in range(80 if quick else 2000):
        body = rand_str(rng, 6)
        shape = rng.below(6)
        extra_p.append([body, body + "%", "%" + body, "%" + body + "%", body[:2] + "%" + body[2:], body.replace("a", "_")][shape])
    pats = pats + extra_p
    strs = strs + extra_s
    tcols = [("id", "i32"), ("s", "text")]
    setup = [gen.create_table("t", tcols)] + gen.insert_rows("t", tcols, [["I%d" % i, "S" + s] for i, s in enumerate(strs)], chunk=100)
    lit = lambda p: "'" + p + "'"
    cases = []
    chunk = 100
    for opt in ("true", "false"):
        for k in range(0, len(pats), chunk):
            stmts = list(setup) + ["set enable_optimizer to " + opt]
            stmts += ["select id from t where s like %s" % lit(p) for p in pats[k:k + chunk]]
            cases.append({"id": "like-%s-%d" % (opt, k), "mode": "det", "partitions": 1, "timeout_s": 300, "stmts": stmts,
                          "_opt": opt, "_k": k})
    # non-constant path: pattern in a column; projection instead of a filter
    ncol = 57 if quick else 400
    colp = pats[:ncol] + extra_p[: (20 if quick else 200)]
    pcols = [("pid", "i32"), ("pat", "text")]
    stmts = list(setup) + [gen.create_table("p", pcols)] + \
        gen.insert_rows("p", pcols, [["I%d" % i, "S" + p] for i, p in enumerate(colp)], chunk=100) + \
        ["select t.id, p.pid, t.s like p.pat from t cross join p"]
    cases.append({"id": "like-col", "mode": "det", "partitions": 1, "timeout_s": 600, "stmts": stmts, "_opt": "col"})
    strip = lambda cs: [{k: v for k, v in c.items() if not k.startswith("_")} for c in cs]
    res = common.run_harness(gverif, "sql", strip(cases), timeout=3000)
    mlines = [" ".join([hx(p)] + [hx(s) for s in strs]) for p in pats]
    mout = common.run_model(gmodel, "like", mlines, timeout=1800)
    model = {}
    for p, o in zip(pats, mout):
        cls, b1, b2, b3 = o.split(" ")
        model[p] = (cls, b1, b2, b3)
    viol, known, evals = [], {}, 0
    nsetup = len(setup) + 1
    eng = {"true": {}, "false": {}}

    def replay(p, s, opt):
        return ["create temp table t (id int, s text)", "insert into t values (0, %s)" % lit(s),
                "set enable_optimizer to " + opt, "select id from t where s like %s" % lit(p)]

    for c, r in zip(cases, res):
        if "results" not in r or len(r["results"]) < len(c["stmts"]) or not all(x.get("ok") for x in r["results"]):
            bad = [x for x in r.get("results", []) if not x.get("ok")][:1]
            viol.append({"what": "LIKE batch did not complete", "replay": {"case": c["id"], "result": bad or r,
                         "stmts": strip([c])[0]["stmts"][-3:]}, "no_input": False})
            continue
        if c["_opt"] == "col":
            got = {}
            for row in r["results"][-1]["rows"]:
                got[(int(row[0][1:]), int(row[1][1:]))] = row[2]
            for pi, p in enumerate(colp):
                cls, b1, b2, b3 = model[p]
                for si, s in enumerate(strs):
                    evals += 1
                    g = got.get((si, pi))
                    if g != "B" + b1[si]:
                        viol.append({"what": "s LIKE pattern_column differs from the %s" % (
                                         "declarative semantics" if g != "B" + b2[si] else "regex-matcher model (model out of date)"),
                                     "replay": {"pattern": p, "string": s, "engine": g, "model": b1[si], "declarative": b2[si],
                                                "stmts": ["create temp table t (s text, p text)", "insert into t values (%s, %s)" % (lit(s), lit(p)),
                                                          "select s like p from t"]}, "no_input": False})
                        break
            continue
        k = c["_k"]
        for j, p in enumerate(pats[k:k + chunk]):
            ids = set(int(row[0][1:]) for row in r["results"][nsetup + j]["rows"])
            eng[c["_opt"]][p] = ids
    npairs = 0
    for p in pats:
        if p not in eng["true"] or p not in eng["false"]:
            continue
        cls, b1, b2, b3 = model[p]
        on, off = eng["true"][p], eng["false"][p]
        for si, s in enumerate(strs):
            npairs += 1
            e_on, e_off = si in on, si in off
            m_rx, m_spec, m_rw = b1[si] == "1", b2[si] == "1", b3[si] == "1"
            info = {"pattern": p, "string": s, "rewrite_class": cls, "engine_optimized": e_on, "engine_unoptimized": e_off,
                    "model_regex": m_rx, "model_rewrite": m_rw, "declarative": m_spec}
            if e_on != e_off or e_off != m_spec:
                # property-level failure on the implementation: the rewrite is not equivalent to the
                # matcher, or the matcher does not accept the declarative LIKE language.  No class of
                # findings/C20.json covers LIKE any more.
                what = "LIKE: optimizer on and off disagree (constant-pattern rewrite not equivalent)" if e_on != e_off else \
                    "LIKE: result differs from the declarative semantics (optimizer on and off agree)"
                bad_opt = "true" if e_on != m_spec else "false"
                viol.append({"what": what, "replay": dict(info, stmts=replay(p, s, bad_opt)), "no_input": False})
                break
            if e_off != m_rx or e_on != m_rw:
                viol.append({"what": "LIKE agrees with the definition but not with the faithful model (model out of date)",
                             "replay": dict(info, stmts=replay(p, s, "true")), "no_input": False})
                break
    evals += 2 * npairs
    sample = None
    if pats:
        p = "a%"
        sample = {"pattern": p, "class": model[p][0], "matching_ids_optimized": sorted(eng["true"].get(p, []))[:5],
                  "strings": len(strs), "patterns": len(pats)}
    return {"violations": viol, "known": known, "evaluations": evals, "distinct": npairs, "sample": sample,
            "patterns": len(pats), "strings": len(strs), "column_patterns": len(colp)}

# ---------------------------------------------------------------- regular expressions
RX_ALPHA = ["a", "b", "c", "é", "日", "\n", ".", "+"]
RX_META = set("\\.+*?()|[]{}^$#&-~")


def rx_gen(rng, depth):
    k = rng.below(10) if depth > 0 else rng.below(4)
    if k < 2:
        return ("lit", rng.choice(RX_ALPHA))
    if k == 2:
        return ("dot",)
    if k == 3:
        items = []
        for _ in range(1 + rng.below(3)):
            c = rng.choice(["a", "b", "c", "é", "日", "+", "."])
            if c in "ab" and rng.chance(40):
                items.append((c, "c"))
            else:
                items.append((c, c))
        return ("set", rng.chance(30), items)
    if k in (4, 5):
        return ("cat", rx_gen(rng, depth - 1), rx_gen(rng, depth - 1))
    if k == 6:
        return ("alt", rx_gen(rng, depth - 1), rx_gen(rng, depth - 1))
    body = rx_gen(rng, depth - 1)
    if rx_nullable(body):          # keep the bodies of * + ? non-nullable (no empty iterations)
        body = ("lit", rng.choice(RX_ALPHA))
    return (["star", "plus", "opt"][k - 7], body)


def rx_nullable(n):
    t = n[0]
    if t in ("lit", "dot", "set"):
        return False
    if t == "cat":
        return rx_nullable(n[1]) and rx_nullable(n[2])
    if t == "alt":
        return rx_nullable(n[1]) or rx_nullable(n[2])
    if t == "plus":
        return rx_nullable(n[1])
    return True


def rx_lit(c):
    if c == "\n":
        return "\\n"
    return ("\\" + c) if c in RX_META else c


def rx_print(n, ctx=0):
    """regex-crate syntax; ctx 0 = alternation level, 1 = concatenation level, 2 = needs an atom"""
    t = n[0]
    if t == "lit":
        return rx_lit(n[1])
    if t == "dot":
        return "."
    if t == "set":
        esc = lambda c: ("\\" + c) if c in "\\]^[-&~" else c
        body = "".join(esc(lo) if lo == hi else esc(lo) + "-" + esc(hi) for lo, hi in n[2])
        return "[" + ("^" if n[1] else "") + body + "]"
    if t == "cat":
        r = rx_print(n[1], 1) + rx_print(n[2], 1)
        return "(?:" + r + ")" if ctx == 2 else r
    if t == "alt":
        r = rx_print(n[1], 0) + "|" + rx_print(n[2], 0)
        return "(?:" + r + ")" if ctx >= 1 else r
    r = rx_print(n[1], 2) + {"star": "*", "plus": "+", "opt": "?"}[t]
    return "(?:" + r + ")" if ctx == 2 else r      # x+? would be a lazy quantifier


def rx_sexp(n):
    t = n[0]
    if t == "lit":
        return "(lit %d)" % ord(n[1])
    if t == "dot":
        return "(dot)"
    if t == "set":
        return "(set %d %s)" % (n[1], " ".join("(%d %d)" % (ord(lo), ord(hi)) for lo, hi in n[2]))
    if t in ("cat", "alt"):
        return "(%s %s %s)" % (t, rx_sexp(n[1]), rx_sexp(n[2]))
    if t == "star":
        return "(star %s)" % rx_sexp(n[1])
    if t == "plus":
        return "(cat %s (star %s))" % (rx_sexp(n[1]), rx_sexp(n[1]))
    return "(alt %s (eps))" % rx_sexp(n[1])


RX_WITNESS = [  # (bol, eol, ast, string, replacement)
    (False, False, ("lit", "a"), "日a", "X"), (False, True, ("lit", "日"), "日a日", "\\0\\0"),
    (False, False, ("alt", ("lit", "a"), ("alt", ("cat", ("lit", "a"), ("lit", "b")), ("lit", "b"))), "ab", "[\\0]"),
    (False, False, ("star", ("lit", "a")), "aaa", "X"), (False, False, ("star", ("lit", "a")), "baaab", "\\\\"),
    (False, False, ("cat", ("lit", "a"), ("cat", ("dot",), ("lit", "b"))), "a\nb", "X"),
    (True, False, ("lit", "b"), "ab", "X"), (False, True, ("opt", ("lit", "x")), "a\n", "\\1Y\\"),
    (False, False, ("set", True, [("a", "c")]), "abé", "\\x"),
]


def stage_regex(ctx, rng, gverif, gmodel):
    quick = ctx["tier"] == "quick"
    n = 500 if quick else 12000
    tuples = list(RX_WITNESS)
    while len(tuples) < n:
        ast = rx_gen(rng, 3)
        bol, eol = rng.chance(20), rng.chance(20)
        for _ in range(4):
            k = rng.below(9)
            pool = RX_ALPHA if rng.chance(60) else ["a", "b", "é"]
            st = "".join(rng.choice(pool) for _ in range(k))
            rep = "".join(rng.choice(["X", "é", "\\", "0", "1", "\\0", "-"]) for _ in range(rng.below(4)))
            tuples.append((bol, eol, ast, st, rep))
    pat = lambda t: ("^" if t[0] else "") + rx_print(t[2], 1 if (t[0] or t[1]) else 0) + ("$" if t[1] else "")
    lines = ["%d\t%d\t%s\t%s\t%s" % (t[0], t[1], rx_sexp(t[2]), hx(t[3]), hx(t[4])) for t in tuples]
    mout = [o.split(" ") for o in common.run_model(gmodel, "rx", lines, timeout=1800)]
    cols = [("id", "i32"), ("s", "text"), ("p", "text"), ("r", "text")]
    q = "regexp_like(s, p), regexp_instr(s, p), regexp_count(s, p), regexp_replace(s, p, r)"
    cases = []
    chunk = 250
    for k in range(0, len(tuples), chunk):
        rows = [["I%d" % (k + i), "S" + t[3], "S" + pat(t), "S" + t[4]] for i, t in enumerate(tuples[k:k + chunk])]
        cases.append({"id": "rx-col-%d" % k, "mode": "det", "partitions": 1, "timeout_s": 120,
                      "stmts": [gen.create_table("t", cols)] + gen.insert_rows("t", cols, rows, chunk=125) + ["select id, %s from t" % q]})
    # constant-pattern path: pattern and replacement as literals
    nconst = 60 if quick else 600
    cstm = [gen.create_table("t", cols)] + gen.insert_rows("t", cols, [["I%d" % i, "S" + t[3], "S", "S"] for i, t in enumerate(tuples[:nconst])], chunk=125)
    for i, t in enumerate(tuples[:nconst]):
        cstm.append("select id, %s from t where id = %d" % (q.replace("(s, p, r)", "(s, '%s', '%s')" % (pat(t), t[4])).replace("(s, p)", "(s, '%s')" % pat(t)), i))
    cases.append({"id": "rx-const", "mode": "det", "partitions": 1, "timeout_s": 300, "stmts": cstm})
    res = common.run_harness(gverif, "sql", cases, timeout=3000)
    got_col, got_const = {}, {}
    viol, known, evals = [], {}, 0
    for c, r in zip(cases, res):
        rr = r.get("results", [])
        if len(rr) < len(c["stmts"]) or not all(x.get("ok") for x in rr):
            bad = [(c["stmts"][i], x) for i, x in enumerate(rr) if not x.get("ok")][:1]
            viol.append({"what": "regexp batch did not complete", "replay": {"case": c["id"], "first_failure": bad or r}, "no_input": False})
            continue
        if c["id"] == "rx-const":
            for x in rr[-nconst:]:
                for row in x["rows"]:
                    got_const[int(row[0][1:])] = [canon_cell(v) for v in row[1:]]
        else:
            for row in rr[-1]["rows"]:
                got_col[int(row[0][1:])] = [canon_cell(v) for v in row[1:]]
    names = ["regexp_like", "regexp_instr", "regexp_count", "regexp_replace"]
    for i, (t, m) in enumerate(zip(tuples, mout)):
        like_m, instr_m, instr_spec, count_m, repl_m = m
        want = [like_m, instr_m, count_m, repl_m]
        for path, got in (("pattern column", got_col.get(i)), ("constant pattern", got_const.get(i))):
            if got is None:
                continue
            evals += 4
            for nm, g, w in zip(names, got, want):
                if g != w:
                    viol.append({"what": "%s (%s) differs from the regex model" % (nm, path), "no_input": False,
                                 "replay": {"pattern": pat(t), "string": t[3], "replacement": t[4], "engine": g, "model": w,
                                            "stmts": ["select %s('%s', '%s'%s)" % (nm, t[3], pat(t), ", '%s'" % t[4] if nm == "regexp_replace" else "")]}})
                    break
        if instr_m != instr_spec:
            # property-level: the position must be counted in characters (no known class any more)
            viol.append({"what": "regexp_instr differs from the definition (character position of the first match)", "no_input": False,
                         "replay": {"pattern": pat(t), "string": t[3], "engine": instr_m, "definition": instr_spec,
                                    "stmts": ["select regexp_instr('%s', '%s')" % (t[3], pat(t))]}})
    viol = viol[:10]
    return {"violations": viol, "known": known, "evaluations": evals, "distinct": len(set((pat(t), t[3]) for t in tuples)),
            "sample": {"pattern": pat(tuples[-1]), "model_regex": rx_sexp(tuples[-1][2]), "string": tuples[-1][3], "model": mout[-1]},
            "tuples": len(tuples)}


def stage_case_unicode(ctx, rng, gverif):
    """upper / lower on non-ASCII input: no Coq model of the Unicode tables; reference = CPython's str.upper/lower"""
    pool = ["a", "Z", "é", "É", "ß", "日", "😀", "ñ", "Ω", "ω", " ", "1"]
    strs = ["".join(rng.choice(pool) for _ in range(rng.below(14))) for _ in range(80 if ctx["tier"] == "quick" else 1500)]
    cols = [("id", "i32"), ("s", "text")]
    stmts = [gen.create_table("t", cols)] + gen.insert_rows("t", cols, [["I%d" % i, "S" + x] for i, x in enumerate(strs)], chunk=100) + \
        ["select id, upper(s), lower(s) from t"]
    r = common.run_harness(gverif, "sql", [{"id": "case-u", "mode": "det", "partitions": 1, "timeout_s": 60, "stmts": stmts}])[0]
    viol = []
    last = (r.get("results") or [{}])[-1]
    if not last.get("ok"):
        return {"violations": [{"what": "upper/lower batch failed", "replay": {"result": last or r}, "no_input": False}], "evaluations": 0}
    for row in last["rows"]:
        x = strs[int(row[0][1:])]
        if row[1] != "S" + x.upper() or row[2] != "S" + x.lower():
            viol.append({"what": "upper/lower differs from the Unicode reference (CPython)", "no_input": False,
                         "replay": {"string": x, "engine": row[1:], "reference": [x.upper(), x.lower()], "stmts": ["select upper('%s'), lower('%s')" % (x, x)]}})
            break
    return {"violations": viol, "evaluations": 2 * len(strs)}


def run(ctx):
    t0 = time.time()
    rng = common.Rng(ctx["seed"])
    out = {"violations": [], "known": [], "assumptions": []}
    gverif, _ = common.build_harness()
    pr = common.coq_props(PROPS)
    audit = [a for a in common.audit_sources() if any(x in a for x in ("Utf8", "Like", "StrFn", "C20", "ExtractText"))]
    obligations = pr["declared"]
    bad_assum = common.check_assumptions(pr) if pr["ok"] else []
    proof_broken = (not pr["ok"]) or bool(bad_assum) or bool(audit)
    discharged = 0 if proof_broken else len(obligations)
    gmodel = common.build_ocaml("text")
    f = stage_functions(ctx, rng, gverif, gmodel)
    l = stage_like(ctx, rng, gverif, gmodel)
    x = stage_regex(ctx, rng, gverif, gmodel)
    cu = stage_case_unicode(ctx, rng, gverif)
    out["violations"] += f["violations"][:25] + l["violations"][:25] + x["violations"] + cu["violations"]
    kf = {k["id"]: k for k in common.known_findings()["known"] if k["property"] == PID}
    for cls, info in list(f["known"].items()) + list(l["known"].items()) + list(x["known"].items()):
        if cls in kf:
            if "function" in info:
                w = "%s with %s -> engine %s, definition %s" % (info["call"], info["args"], info["engine"], info["spec"])
            elif "definition" in info:
                w = "%s -> engine %s, definition %s" % (info["stmts"][-1], info["engine"], info["definition"])
            else:
                w = "%r LIKE %r -> optimized %s, unoptimized %s, definition %s" % (
                    info["string"], info["pattern"], info["engine_optimized"], info["engine_unoptimized"], info["declarative"])
            out["known"].append("%s: %s [reproduced: %s]" % (cls, kf[cls]["what"], w))
        else:
            out["violations"].append({"what": "failure class %s is not listed in findings/C20.json" % cls, "replay": info, "no_input": False})
    if proof_broken and not out["violations"]:
        out["violations"].append({"what": "theorem(s) in %s no longer check" % PROPS, "no_input": True,
                                  "replay": {"failed_at": pr.get("failed_at"), "log_tail": pr["log"][-1500:] if not pr["ok"] else "",
                                             "assumption_problems": bad_assum, "audit": audit}})
    out["coverage"] = {
        "obligations": len(obligations), "discharged": discharged,
        "checker_cmd": "cd coq && make props/C20.vo (Print Assumptions parsed; Admitted/Axiom audit over coq/)",
        "trusted_base": ["Coq 8.16.1 kernel (vm_compute in closed witness lemmas)",
                         "hand transcription of string/*.rs, like.rs, expr_rewrite/like.rs into model/{StrFn,Like}.v, tied to the engine by the SQL correspondence below",
                         "std::str semantics taken as documented: chars/char_indices/slicing/trim_matches/starts_with/ends_with/contains/replace/split/match_indices; regex crate: literals, `.` (no newline), `.*`, anchors",
                         "extraction (ExtrOcamlBasic only) + ocaml/text.ml parsing/printing", "harness/src/sql.rs (gverif sql)"],
        "theorems": obligations,
        "evaluations": f["evaluations"] + l["evaluations"] + x["evaluations"] + cu["evaluations"],
        "distinct_nontrivial": f["distinct"] + l["distinct"] + x["distinct"],
        "regex_tuples": x["tuples"], "regex_evaluations": x["evaluations"], "case_unicode_reference_evaluations": cu["evaluations"],
        "rule": "functions: every generated (function, argument tuple) is evaluated by the engine through SQL (arguments in table columns, so short inline and long heap strings both occur), by the extracted transcription and by the extracted definition; engine == transcription is required always, transcription != definition must fall in a class of findings/C20.json. LIKE: every (pattern, string) pair of the exhaustive core (all patterns x all strings up to length 3 over 7 symbols) plus random longer ones, evaluated with the optimizer on, off and with the pattern in a column, against the extracted regex-matcher model, rewrite model and declarative matcher; distinct = distinct argument tuples + distinct (pattern, string) pairs. regexp_*: generated patterns of the modelled fragment (literals, classes, `.`, * + ?, alternation, concatenation, ^ $ at the ends) printed in regex-crate syntax, pattern in a column and as a constant; regexp_like and regexp_instr against the derivative matcher (proved = declarative semantics), regexp_count and regexp_replace against the extracted leftmost-first backtracking model (no theorem). upper/lower/initcap: ASCII strings against the extracted ASCII instance; non-ASCII upper/lower against CPython's str.upper/lower only.",
        "samples": f["samples"] + [l["sample"], x["sample"]],
        "function_tuples": f["evaluations"], "functions": len(FUNCS), "single_tuple_cases": f["singles"],
        "bulk_fallbacks": f["bulk_fallbacks"],
        "like_patterns": l["patterns"], "like_strings": l["strings"], "like_column_patterns": l["column_patterns"],
        "like_pairs_const": l["distinct"], "exhaustive": False,
    }
    out["assumptions"] = ["SQL string literals cannot carry a single quote or NUL; those two characters are outside the tested alphabet",
                          "case mapping is modelled for ASCII only (non-ASCII compared with CPython's tables); md5 is not modelled; regexp_* only inside the fragment, regexp_count/regexp_replace match ends by an unproved backtracking model; the regex fragment takes the regex-crate meaning of `.` (no newline), PostgreSQL's `.` matches newline",
                          "very large counts (lpad/rpad/repeat allocate, substring spins) are not sent to the engine"]
    out["wall"] = time.time() - t0
    return out
