"""Run generated queries on the real engine under given configurations and judge every answer with
the extracted reference semantics (ocaml/sql.ml: check_answer)."""
import json
from . import common, sqlgen, sqlast

UNSUPPORTED_MARKERS = ("not implemented", "Not implemented", "not yet implemented", "Not yet implemented", "unsupported", "Unsupported",
                       "not supported", "Not yet supported", "not yet supported", "TODO")


def cell_sx(c):
    return sqlgen.sx_value(c)


def cfg_stmts(cfg):
    out = []
    for k in ("partitions", "batch_size"):
        if k in cfg:
            out.append("set %s to %d" % (k, cfg[k]))
    for k in ("enable_optimizer", "enable_hash_joins"):
        if k in cfg:
            out.append("set %s to %s" % (k, "true" if cfg[k] else "false"))
    return out


def run(gverif, gmodel, work, mode="threaded", timeout_s=60):
    """work: list of {"tables": tables, "prelude": [stmts], "runs": [(Q, cfg), ...], "id": str, "threads": n,
                      "sched": {...} (det mode)}
    returns list of records, one per (Q, cfg):
       {"case": id, "q": Q, "cfg": cfg, "engine": result-json, "verdict": "OK"|"MISMATCH"|"SPECERR x"|None,
        "outcome": "agree"|"mismatch"|"engine_error"|"engine_panic"|"engine_abort"|"engine_hang"|"unsupported"|
                   "spec_error_engine_ok"|"both_error"|"type_mismatch"|"setup_failed", "stmts": [...] }"""
    cases = []
    for w in work:
        stmts = sqlgen.setup_stmts(w["tables"]) + list(w.get("prelude", []))
        nsetup = len(stmts)
        pos = []
        for q, cfg in w["runs"]:
            cs = cfg_stmts(cfg)
            stmts += cs + [q.sql]
            pos.append(len(stmts) - 1)
        c = {"id": w["id"], "mode": w.get("mode", mode), "threads": w.get("threads", 4), "stmts": stmts,
             "timeout_s": timeout_s}
        if c["mode"] == "det":
            c["partitions"] = w.get("det_partitions", 4)
            c["sched"] = w.get("sched", {"kind": "fifo", "seed": 1})
        cases.append((c, w, nsetup, pos))
    real = common.run_harness(gverif, "sql", [c for c, _, _, _ in cases], timeout=3600)
    records, lines, idx = [], [], []
    for (c, w, nsetup, pos), r in zip(cases, real):
        res = r.get("results")
        dbsx = sqlgen.sx_db(w["tables"])
        for (q, cfg), p in zip(w["runs"], pos):
            rec = {"case": w["id"], "q": q, "cfg": cfg, "verdict": None, "dbsx": dbsx,
                   "stmts": c["stmts"][:nsetup] + cfg_stmts(cfg) + [q.sql], "mode": c["mode"],
                   "run": {k: c[k] for k in ("mode", "threads", "partitions", "sched") if k in c}}
            records.append(rec)
            if res is None:
                rec["engine"] = r
                rec["outcome"] = "engine_abort" if "abort" in r else ("engine_hang" if "timeout" in r else "engine_abort")
                continue
            if any(not x.get("ok") for x in res[:nsetup]):
                rec["engine"] = [x for x in res[:nsetup] if not x.get("ok")][:1]
                rec["outcome"] = "setup_failed"
                continue
            if p >= len(res):
                # an earlier statement of this case killed / stopped the run
                last = res[-1] if res else {}
                rec["engine"] = last
                rec["outcome"] = "engine_panic" if "panic" in last else ("engine_hang" if "hang" in last else "engine_abort")
                rec["blocked_by_earlier"] = True
                continue
            e = res[p]
            rec["engine"] = e
            if "panic" in e:
                rec["outcome"] = "engine_panic"
                continue
            if "hang" in e:
                rec["outcome"] = "engine_hang"
                continue
            if not e.get("ok"):
                msg = e.get("err", "")
                rec["outcome"] = "unsupported" if any(m in msg for m in UNSUPPORTED_MARKERS) else "engine_error"
                # the spec may say error too: ask the model
                lines.append("(eval %s %s)" % (dbsx, sqlast.expand_text(q.sx)))
                idx.append((rec, "eval"))
                continue
            got = "(" + " ".join("(" + " ".join(cell_sx(x) for x in row) + ")" for row in e["rows"]) + ")"
            lines.append("(check %s %s %s)" % (dbsx, sqlast.expand_text(q.sx), got))
            idx.append((rec, "check"))
            want_types = [sqlgen.ENGINE_TYPE[t] for t in q.types]
            got_types = [t for _, t in e["schema"]]
            rec["types_ok"] = (want_types == got_types) and all(bt == got_types for bt in e.get("batch_types", [])) \
                and not e.get("value_err")
            rec["names_ok"] = [n for n, _ in e["schema"]] == q.names
    outs = common.run_model(gmodel, "x", lines, timeout=3600) if lines else []
    for (rec, kind), o in zip(idx, outs):
        rec["verdict"] = o
        if kind == "check":
            if o == "OK":
                rec["outcome"] = "agree" if rec.get("types_ok", True) and rec.get("names_ok", True) else "type_mismatch"
            elif o == "MISMATCH":
                rec["outcome"] = "mismatch"
            elif o.startswith("SPECERR"):
                rec["outcome"] = "spec_error_engine_ok"
            else:
                rec["outcome"] = "model_badcase"
        else:
            if o.startswith("ERR"):
                rec["outcome"] = "both_error" if rec["outcome"] == "engine_error" else rec["outcome"]
    return records


def replay_of(rec):
    return {"sql": rec["q"].sql, "ast": sqlast.expand_text(rec["q"].sx), "config": rec["cfg"], "mode": rec.get("mode"),
            "classes": sorted(rec["q"].classes), "outcome": rec["outcome"], "model_verdict": rec["verdict"],
            "engine": rec["engine"] if not isinstance(rec["engine"], dict) or len(json.dumps(rec["engine"])) < 4000
            else {k: (v if k != "rows" else v[:40]) for k, v in rec["engine"].items()},
            "stmts": rec["stmts"], "dbsx": rec.get("dbsx"), "run": rec.get("run")}


def replay(ctx, payload):
    """./check Cnn --replay file: run the recorded statements again on the current tree and judge the last
    statement's answer with the extracted reference semantics.  exit 1 (VIOLATION printed) if it still fails."""
    pid = payload.get("property", "C01")
    r = payload.get("replay", {})
    if not isinstance(r, dict) or "stmts" not in r:
        print("replay: no statements recorded (%s)" % str(r)[:300])
        return 1
    gverif, _ = common.build_harness(bin="gverif")
    gmodel = common.build_ocaml("sql")
    case = dict(r.get("run") or {"mode": "det", "partitions": 2, "sched": {"kind": "fifo", "seed": 1}})
    case.update({"id": "replay", "stmts": r["stmts"], "timeout_s": 60})
    out = common.run_harness(gverif, "sql", [case], timeout=600)[0]
    res = out.get("results")
    last = res[-1] if res else out
    print("engine:", json.dumps(last)[:1500])
    bad = True
    if res and len(res) == len(r["stmts"]) and last.get("ok") and r.get("dbsx") and r.get("ast"):
        got = "(" + " ".join("(" + " ".join(cell_sx(x) for x in row) + ")" for row in last["rows"]) + ")"
        v = common.run_model(gmodel, "x", ["(check %s %s %s)" % (r["dbsx"], r["ast"], got)])[0]
        print("reference semantics verdict:", v)
        bad = v != "OK"
    elif res and not last.get("ok") and r.get("dbsx") and r.get("ast") and "err" in last:
        v = common.run_model(gmodel, "x", ["(eval %s %s)" % (r["dbsx"], r["ast"])])[0]
        print("reference semantics:", v[:300])
        bad = not v.startswith("ERR")
    if bad:
        print("VIOLATION property=%s replay=%s" % (pid, ctx.get("replay")))
        return 1
    print("replay: the recorded case now agrees with the reference semantics")
    return 0
