"""C02 — The optimizer never changes what a query returns."""
import json
from . import sqlprop, sqlgen, sqlrun

PID = "C02"


def make_work(rng, tier):
    n = 300 if tier == "quick" else 3000
    work = []
    for i in range(n):
        tables = sqlgen.make_db(rng, max_rows=rng.choice([12, 30, 60]))
        g = sqlgen.Gen(rng, tables, {"max_depth": 3, "join_bias": i % 2 == 1})
        runs = []
        for _ in range(3):
            q = g.query()
            parts = rng.choice([1, 2, 4])
            runs.append((q, {"partitions": parts, "enable_optimizer": True}))
            runs.append((q, {"partitions": parts, "enable_optimizer": False}))
        work.append({"id": "c02-%d" % i, "tables": tables, "runs": runs, "mode": "det", "det_partitions": 2,
                     "sched": {"kind": "fifo", "seed": 1}})
    return work


def pair_check(recs):
    """optimizer on and off must ALSO agree with each other in names and types (both already judged vs the spec)"""
    out = []
    by = {}
    for r in recs:
        if r.get("blocked_by_earlier") or not isinstance(r["engine"], dict) or not r["engine"].get("ok"):
            continue
        by.setdefault((r["case"], r["q"].sql, r["cfg"]["partitions"]), {})[r["cfg"]["enable_optimizer"]] = r
    for k, d in by.items():
        if True in d and False in d:
            a, b = d[True]["engine"], d[False]["engine"]
            if a["schema"] != b["schema"]:
                out.append({"what": "C02: announced schema differs between optimizer on and off",
                            "replay": dict(sqlrun.replay_of(d[True]), schema_on=a["schema"], schema_off=b["schema"]),
                            "no_input": False})
    return out


def run(ctx):
    return sqlprop.run_property(
        ctx, PID, "props/C02.v", make_work,
        "algebraic soundness of the rewrites the rules rely on (filter split/pushdown through inner, left, semi/anti joins, projections, aggregates on keys; limit/projection commutation; top-k hint; 3VL distributivity, conjunction flattening, conjunct reordering, constant folding on closed expressions) over the shallow relational algebra model/Rel.v built on model/Sql.v; negative results (right side of LEFT JOIN, global aggregate, the absorption case of DistributiveOrRewrite) as closed witnesses",
        "every generated query runs with enable_optimizer true and false under the same partition count; both answers are judged against the reference semantics (hence against each other) and their announced schemas compared; distinct = distinct (SQL text, config)",
        pair_check=pair_check)


def replay(ctx, payload):
    from . import sqlrun
    return sqlrun.replay(ctx, payload)
