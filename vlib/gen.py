"""Typed SQL value generation shared by the checks.  A value is a harness cell string
(see harness/src/value.rs): N, B0/B1, I<int>, F<hexbits>, D<unscaled>/<p>/<s>, T<days>, S<text>."""
import struct, datetime

# name -> (sql type, engine type name, kind, byte width, signed)
TYPES = {
    "i8": ("tinyint", "Int8", "int", 1, True), "i16": ("smallint", "Int16", "int", 2, True),
    "i32": ("int", "Int32", "int", 4, True), "i64": ("bigint", "Int64", "int", 8, True),
    "u8": ("utinyint", "UInt8", "int", 1, False), "u16": ("usmallint", "UInt16", "int", 2, False),
    "u32": ("uint", "UInt32", "int", 4, False), "u64": ("ubigint", "UInt64", "int", 8, False),
    "f32": ("float", "Float32", "float", 4, True), "f64": ("double", "Float64", "float", 8, True),
    "bool": ("boolean", "Boolean", "bool", 1, False), "text": ("text", "Utf8", "str", 0, False),
    "date": ("date", "Date32", "date", 4, True),
}


def dec_type(p, s):
    return ("decimal(%d,%d)" % (p, s), "Decimal%d(%d,%d)" % (64 if p <= 18 else 128, p, s), "dec", 8 if p <= 18 else 16, True)


def tinfo(t):
    if t.startswith("dec("):
        p, s = t[4:-1].split(",")
        return dec_type(int(p), int(s))
    return TYPES[t]


def f64_bits(x):
    return struct.unpack("<Q", struct.pack("<d", x))[0]


def bits_f64(b):
    return struct.unpack("<d", struct.pack("<Q", b))[0]


def f32_bits(x):
    return struct.unpack("<I", struct.pack("<f", x))[0]


def bits_f32(b):
    return struct.unpack("<f", struct.pack("<I", b))[0]


def float_text(x):
    if x != x:
        return "NaN"
    if x == float("inf"):
        return "inf"
    if x == float("-inf"):
        return "-inf"
    return repr(x)


def f32_text(bits):
    """shortest decimal text that parses back to exactly this f32"""
    x = bits_f32(bits)
    if x != x or x in (float("inf"), float("-inf")):
        return float_text(x)
    for prec in range(1, 18):
        s = "%.*g" % (prec, x)
        try:
            if f32_bits(float(s)) == bits:
                return s
        except OverflowError:
            pass
    return repr(x)


def date_text(days):
    return (datetime.date(1970, 1, 1) + datetime.timedelta(days=days)).isoformat()


def sql_lit(t, cell):
    """SQL literal of type t for a cell (always a cast from text so that VALUES rows unify)."""
    sqlt, _, kind, w, signed = tinfo(t)
    if cell == "N":
        return "NULL"
    tag, body = cell[0], cell[1:]
    if kind == "bool":
        return "true" if body == "1" else "false"
    if kind == "str":
        return "'" + body.replace("'", "''") + "'"
    if kind == "int":
        return "cast('%s' as %s)" % (body, sqlt)
    if kind == "float":
        b = int(body, 16)
        txt = float_text(bits_f64(b)) if w == 8 else f32_text(b)
        return "cast('%s' as %s)" % (txt, sqlt)
    if kind == "date":
        return "cast('%s' as date)" % date_text(int(body))
    if kind == "dec":
        unscaled, p, s = body.split("/")
        unscaled, s = int(unscaled), int(s)
        neg = unscaled < 0
        digits = str(abs(unscaled)).rjust(s + 1, "0")
        txt = ("-" if neg else "") + (digits[:-s] + "." + digits[-s:] if s > 0 else digits)
        return "cast('%s' as %s)" % (txt, sqlt)
    raise ValueError(t)


def int_pool(w, signed):
    bits = 8 * w
    if signed:
        lo, hi = -(1 << (bits - 1)), (1 << (bits - 1)) - 1
    else:
        lo, hi = 0, (1 << bits) - 1
    base = [lo, lo + 1, hi, hi - 1, 0, 1, 2, 3, 7, 10, 100, 127, 128, 255, 256, hi // 2, hi // 2 + 1]
    if signed:
        base += [-1, -2, -10, -128, -129, lo // 2]
    return sorted(set(x for x in base if lo <= x <= hi))


F64_POOL = [0x0000000000000000, 0x8000000000000000, 0x3ff0000000000000, 0xbff0000000000000,
            0x3ff0000020000000, 0x3ff0000000000001, 0x3ff00000ffffffff, 0x3ff0000100000000,
            0x3ff8000000000000, 0x4000000000000000, 0xc000000000000000, 0x7ff0000000000000,
            0xfff0000000000000, 0x7ff8000000000000, 0x0000000000000001, 0x8000000000000001,
            0x000fffffffffffff, 0x0010000000000000, 0x7fefffffffffffff, 0xffefffffffffffff,
            0x3fb999999999999a, 0x4059000000000000, 0xc059000000000000, 0x4059000000000001,
            0x40590000fffffffe, 0xc0590000fffffffe, 0xc059000000000001, 0x4340000000000000,
            0x41dfffffffc00000, 0x41e0000000000000, 0xc1e0000000000000, 0x3fe0000000000000]
F32_POOL = [0x00000000, 0x80000000, 0x3f800000, 0xbf800000, 0x3f800001, 0x3f80ffff, 0x3fc00000,
            0x40000000, 0xc0000000, 0x7f800000, 0xff800000, 0x7fc00000, 0x00000001, 0x80000001,
            0x007fffff, 0x00800000, 0x7f7fffff, 0xff7fffff, 0x3dcccccd, 0x42c80000, 0xc2c80000,
            0x42c80001, 0xc2c80001, 0x4b800000, 0x4f000000, 0xcf000000, 0x3f000000]

STR_POOL = ["", "a", "b", "ab", "abc", "B", "A", "aa", " ", "0", "é", "ée", "ü", "日本", "😀",
            "abcdefghijkl", "abcdefghijklm", "abcdefghijklmn", "abcdefghijkl\u0001", "abcdefghijk",
            "abcdefghijklmnopqrstuvwxyz", "abcdefghijklmnopqrstuvwxyzA", "zzzzzzzzzzzzzzzzzzzzzzzz",
            "a\u0001", "a b", "%", "_", "\\", "ÿ", "\u007f", "abcdefghijklé", "NULL", "null"]


def value(rng, t, null_pct=12):
    """One random cell of type t, boundary-biased."""
    sqlt, _, kind, w, signed = tinfo(t)
    if rng.chance(null_pct):
        return "N"
    if kind == "bool":
        return "B%d" % rng.below(2)
    if kind == "int":
        pool = int_pool(w, signed)
        if rng.chance(60):
            return "I%d" % rng.choice(pool)
        bits = 8 * w
        x = rng.next() & ((1 << bits) - 1)
        if rng.chance(50):
            x &= 0xF  # small values: duplicates and ties
        if signed and x >= 1 << (bits - 1):
            x -= 1 << bits
        return "I%d" % x
    if kind == "float":
        if w == 8:
            b = rng.choice(F64_POOL) if rng.chance(60) else rng.next()
            if (b >> 52) & 0x7ff == 0x7ff and b & ((1 << 52) - 1):
                b = 0x7ff8000000000000  # a single NaN payload: text cannot carry others
            return "F%x" % b
        b = rng.choice(F32_POOL) if rng.chance(60) else rng.next() & 0xffffffff
        if (b >> 23) & 0xff == 0xff and b & ((1 << 23) - 1):
            b = 0x7fc00000
        return "F%x" % b
    if kind == "str":
        if rng.chance(70):
            return "S" + rng.choice(STR_POOL)
        n = rng.below(20)
        alpha = "abAB01 éz\u0001"
        return "S" + "".join(rng.choice(alpha) for _ in range(n))
    if kind == "date":
        pool = [0, -1, 1, 18262, 18263, 11016, 11017, -719162, 2932896, 59, 60, 365, 366, 19782]
        return "T%d" % (rng.choice(pool) if rng.chance(60) else rng.below(40000) - 10000)
    if kind == "dec":
        p, s = [int(x) for x in t[4:-1].split(",")]
        lim = 10 ** p - 1
        pool = [0, 1, -1, lim, -lim, 10 ** s if s <= p else 1, 5 * 10 ** max(s - 1, 0), lim // 2]
        x = rng.choice(pool) if rng.chance(50) else (rng.next() % (2 * lim + 1)) - lim
        if rng.chance(30):
            x = (x % 41) - 20
        return "D%d/%d/%d" % (x, p, s)
    raise ValueError(t)


def create_table(name, cols):
    """cols: list of (colname, typename)"""
    return "create temp table %s (%s)" % (name, ", ".join("%s %s" % (c, tinfo(t)[0]) for c, t in cols))


def insert_rows(name, cols, rows, chunk=200):
    out = []
    for i in range(0, len(rows), chunk):
        vals = ", ".join("(" + ", ".join(sql_lit(t, c) for (_, t), c in zip(cols, r)) + ")" for r in rows[i:i + chunk])
        out.append("insert into %s values %s" % (name, vals))
    return out
