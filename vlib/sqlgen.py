"""Type-directed random SQL generator producing, for every query, the SQL text AND the resolved AST
(s-expression) of the reference semantics coq/model/Sql.v, plus the expected output types and the
set of *known-defect classes* the query can reach (empty set = main stream).

Types: 'i32', 'i64', 'bool', 'text'.  Values are harness cells (N, I<n>, B0/1, S<text>)."""
from . import gen

INT_TYPES = ("i32", "i64")
ENGINE_TYPE = {"i32": "Int32", "i64": "Int64", "bool": "Boolean", "text": "Utf8"}


def parse_one(sx):
    from . import sqlast
    return sqlast.parse(sx)


def show_one(a):
    from . import sqlast
    return sqlast.show(a)


def sx_value(cell):
    if cell == "N":
        return "N"
    t, b = cell[0], cell[1:]
    if t == "I":
        return "(i %s)" % b
    if t == "B":
        return "(b %s)" % b
    if t == "S":
        return "(s %s)" % b.encode("utf-8").hex() if b else "(s)"
    raise ValueError(cell)


def sx_rows(rows):
    return "(" + " ".join("(" + " ".join(sx_value(c) for c in r) + ")" for r in rows) + ")"


class Col:
    def __init__(self, sql, ty, depth_idx):
        self.sql, self.ty, self.idx = sql, ty, depth_idx


class Scope:
    """columns visible at one SELECT block level: list of Col (idx = position in the block row)"""
    def __init__(self, cols):
        self.cols = cols


# the reference evaluation materialises products and the proved judge compares bags quadratically: bound the
# estimated size of every FROM clause (estimates propagate through derived tables, views and CTEs)
PRODUCT_BOUND = 6000


class Q:
    """a generated query"""
    def __init__(self, sql, sx, types, names, classes, ordered=False):
        self.sql, self.sx, self.types, self.names, self.classes, self.ordered = sql, sx, types, names, set(classes), ordered
        self.est = 40   # estimated number of result rows (upper bound when the generator knows one)


class Gen:
    def __init__(self, rng, tables, opts=None):
        """tables: list of (name, [(col, type)], rows)"""
        self.rng = rng
        self.tables = tables
        self.alias_n = 0
        self.o = dict(subqueries=True, joins=True, groups=True, setops=True, ctes=True, order=True,
                      case=True, inlist=True, lateral=False, semi=False, max_depth=3, join_bias=False, views=False)
        if opts:
            self.o.update(opts)
        self.ctes = []     # (name, Q) available for FROM in the block being generated
        self.cte_all = []  # every CTE of the statement
        self.prelude = []  # statements to run before the query (views)
        self.views = []    # (name, Q) created by the prelude
        self.views_used = set()
        self.view_n = 0

    # ------------------------------------------------------------ helpers
    def alias(self, p="x"):
        self.alias_n += 1
        return "%s%d" % (p, self.alias_n)

    def lit(self, ty):
        r = self.rng
        if ty in INT_TYPES:
            v = r.choice([0, 1, 2, 3, 5, 7, 10, -1, -2, -5, 20, 100])
            sql = str(v) if v >= 0 else "(%d)" % v
            if ty == "i64":
                sql = "cast('%d' as bigint)" % v
            return sql, "(const (i %d))" % v
        if ty == "bool":
            b = r.below(2)
            return ("true" if b else "false"), "(const (b %d))" % b
        if ty == "text":
            s = r.choice(["", "a", "b", "ab", "abc", "B", "x y", "é", "abcdefghijklmnop", "a'b", "twelve_chars",
                          "shared_prefix_A", "shared_prefix_", "elevenchars", "thirteenchars"])
            return "'%s'" % s.replace("'", "''"), "(const %s)" % sx_value("S" + s)
        raise ValueError(ty)

    def cols_of(self, scopes, ty, depth0_only=False):
        out = []
        for d, sc in enumerate(scopes):
            if depth0_only and d > 0:
                break
            for c in sc.cols:
                if d > 0 and "." not in c.sql:
                    # the unqualified merged column of a USING join: inside a nested block the bare name would
                    # resolve to a column of the inner tables first
                    continue
                if c.ty == ty or (ty == "int" and c.ty in INT_TYPES):
                    out.append((d, c))
        return out

    # ------------------------------------------------------------ expressions
    def expr(self, scopes, ty, depth, classes, allow_sub=True, corr=True):
        """returns (sql, sx, ty)"""
        r = self.rng
        if ty == "int":
            ty = r.choice(INT_TYPES)
        cands = self.cols_of(scopes, ty, depth0_only=not corr)
        # leaf
        if depth <= 0 or r.chance(35):
            if cands and r.chance(80):
                # prefer the innermost scope, sometimes correlate
                inner = [x for x in cands if x[0] == 0]
                d, c = r.choice(inner) if inner and r.chance(75) else r.choice(cands)
                if d > 0:
                    classes.add("correlated")
                return c.sql, "(col %d %d)" % (d, c.idx), ty
            sql, sx = self.lit(ty)
            return sql, sx, ty
        if ty != "bool" and self.o.get("sugar", True) and r.chance(6):
            a = self.expr(scopes, ty, depth - 1, classes, False, corr)
            b = self.expr(scopes, ty, depth - 1, classes, False, corr)
            classes.add("coalesce")
            return "coalesce(%s, %s)" % (a[0], b[0]), "(case (((isnull 1 %s) %s)) %s)" % (a[1], a[1], b[1]), ty
        if ty in INT_TYPES:
            k = r.below(10)
            w = 32 if ty == "i32" else 64
            if k < 5:
                op = r.choice(["add", "sub", "mul"]) if depth <= 1 else r.choice(["add", "sub"])
                a = self.expr(scopes, ty, depth - 1, classes, allow_sub, corr)
                if op == "mul":
                    bsql, bsx = self.lit(ty)
                    b = (bsql, bsx, ty)
                else:
                    b = self.expr(scopes, ty, depth - 1, classes, allow_sub, corr)
                sym = {"add": "+", "sub": "-", "mul": "*"}[op]
                return "(%s %s %s)" % (a[0], sym, b[0]), "(arith %s %d %s %s)" % (op, w, a[1], b[1]), ty
            if k < 6:
                a = self.expr(scopes, ty, depth - 1, classes, allow_sub, corr)
                dv = r.choice([1, 2, 3, 7, -2])
                op = r.choice(["div", "rem"])
                dsql = str(dv) if dv > 0 else "(%d)" % dv
                if ty == "i64":
                    dsql = "cast('%d' as bigint)" % dv
                return "(%s %s %s)" % (a[0], "/" if op == "div" else "%", dsql), \
                       "(arith %s %d %s (const (i %d)))" % (op, w, a[1], dv), ty
            if k < 8 and self.o["case"]:
                return self.case(scopes, ty, depth, classes, allow_sub, corr)
            if k < 9 and allow_sub and self.o["subqueries"] and depth >= 2:
                return self.scalar_sub(scopes, ty, depth, classes)
            a = self.expr(scopes, ty, depth - 1, classes, allow_sub, corr)
            return "(- %s)" % a[0], "(neg %d %s)" % (w, a[1]), ty
        if ty == "text":
            if self.o["case"] and r.chance(30):
                return self.case(scopes, ty, depth, classes, allow_sub, corr)
            sql, sx = self.lit(ty)
            return sql, sx, ty
        if ty == "bool":
            if self.o.get("sugar", True) and depth >= 1 and r.chance(self.o.get("sugar_chance", 10)):
                which = r.below(3)
                if which == 0:
                    # a [NOT] BETWEEN lo AND hi  =  a >= lo AND a <= hi  /  a < lo OR a > hi
                    t2 = r.choice(["i32", "i64", "text"])
                    a = self.expr(scopes, t2, depth - 1, classes, False, corr)
                    lo = self.expr(scopes, t2, 0, classes, False, corr)
                    hi = self.expr(scopes, t2, 0, classes, False, corr)
                    # the bounds are inclusive: make the value sit exactly on a bound in half of the cases
                    if r.chance(50):
                        if r.chance(50):
                            hi = a
                        else:
                            lo = a
                    classes.add("between")
                    if r.chance(50):
                        return "(%s BETWEEN %s AND %s)" % (a[0], lo[0], hi[0]), \
                               "(and (cmp ge %s %s) (cmp le %s %s))" % (a[1], lo[1], a[1], hi[1]), ty
                    return "(%s NOT BETWEEN %s AND %s)" % (a[0], lo[0], hi[0]), \
                           "(or (cmp lt %s %s) (cmp gt %s %s))" % (a[1], lo[1], a[1], hi[1]), ty
                if which == 1:
                    # c IS [NOT] TRUE / FALSE: two-valued
                    c = self.expr(scopes, "bool", depth - 1, classes, False, corr)
                    tv = r.chance(50)
                    neg = r.chance(50)
                    classes.add("is_bool")
                    cond = c[1] if tv else "(not %s)" % c[1]
                    sx = "(case ((%s (const (b 1)))) (const (b 0)))" % cond
                    if neg:
                        sx = "(not %s)" % sx
                    return "(%s IS %s%s)" % (c[0], "NOT " if neg else "", "TRUE" if tv else "FALSE"), sx, ty
                # coalesce over booleans
                a = self.expr(scopes, "bool", depth - 1, classes, False, corr)
                b = self.expr(scopes, "bool", depth - 1, classes, False, corr)
                classes.add("coalesce")
                return "coalesce(%s, %s)" % (a[0], b[0]), "(case (((isnull 1 %s) %s)) %s)" % (a[1], a[1], b[1]), ty
            k = r.below(20)
            if k < 7:
                t2 = r.choice(["i32", "i64", "text", "i32"])
                a = self.expr(scopes, t2, depth - 1, classes, allow_sub, corr)
                b = self.expr(scopes, t2, depth - 1, classes, allow_sub, corr)
                op = r.choice(["eq", "ne", "lt", "le", "gt", "ge"])
                sym = {"eq": "=", "ne": "<>", "lt": "<", "le": "<=", "gt": ">", "ge": ">="}[op]
                return "(%s %s %s)" % (a[0], sym, b[0]), "(cmp %s %s %s)" % (op, a[1], b[1]), ty
            if k < 10:
                a = self.expr(scopes, "bool", depth - 1, classes, allow_sub, corr)
                b = self.expr(scopes, "bool", depth - 1, classes, allow_sub, corr)
                op = r.choice(["and", "or"])
                classes.add("andor")
                return "(%s %s %s)" % (a[0], op.upper(), b[0]), "(%s %s %s)" % (op, a[1], b[1]), ty
            if k < 11:
                a = self.expr(scopes, "bool", depth - 1, classes, allow_sub, corr)
                return "(NOT %s)" % a[0], "(not %s)" % a[1], ty
            if k < 13:
                t2 = r.choice(["i32", "i64", "text", "bool"])
                a = self.expr(scopes, t2, depth - 1, classes, allow_sub, corr)
                neg = r.below(2)
                return "(%s IS %sNULL)" % (a[0], "NOT " if neg else ""), "(isnull %d %s)" % (neg, a[1]), ty
            if k < 14:
                t2 = r.choice(["i32", "text"])
                a = self.expr(scopes, t2, depth - 1, classes, allow_sub, corr)
                b = self.expr(scopes, t2, depth - 1, classes, allow_sub, corr)
                neg = r.below(2)
                return "(%s IS %sDISTINCT FROM %s)" % (a[0], "NOT " if neg else "", b[0]), \
                       "(distinct %d %s %s)" % (neg, a[1], b[1]), ty
            if k < 15 and self.o["inlist"]:
                t2 = r.choice(["i32", "text"])
                a = self.expr(scopes, t2, depth - 1, classes, allow_sub, corr)
                n = 1 + r.below(3)
                items = [self.lit(t2) for _ in range(n)]
                if r.chance(15):
                    items.append(("NULL", "(const N)"))
                neg = r.below(2)
                classes.add("inlist")
                return "(%s %sIN (%s))" % (a[0], "NOT " if neg else "", ", ".join(i[0] for i in items)), \
                       "(inlist %d %s (%s))" % (neg, a[1], " ".join(i[1] for i in items)), ty
            if k < 16 and self.o["case"]:
                return self.case(scopes, ty, depth, classes, allow_sub, corr)
            if k < 19 and allow_sub and self.o["subqueries"] and depth >= 2:
                return self.bool_sub(scopes, depth, classes)
            if cands:
                d, c = r.choice(cands)
                return c.sql, "(col %d %d)" % (d, c.idx), ty
            sql, sx = self.lit(ty)
            return sql, sx, ty
        raise ValueError(ty)

    def case(self, scopes, ty, depth, classes, allow_sub, corr):
        r = self.rng
        n = 1 + r.below(2)
        bs = []
        for _ in range(n):
            c = self.expr(scopes, "bool", depth - 1, classes, False, corr)
            t = self.expr(scopes, ty, depth - 1, classes, False, corr)
            bs.append((c, t))
        e = self.expr(scopes, ty, depth - 1, classes, False, corr)
        classes.add("case")
        sql = "(CASE " + " ".join("WHEN %s THEN %s" % (c[0], t[0]) for c, t in bs) + " ELSE %s END)" % e[0]
        sx = "(case (" + " ".join("(%s %s)" % (c[1], t[1]) for c, t in bs) + ") %s)" % e[1]
        return sql, sx, ty

    # ------------------------------------------------------------ subqueries in expressions
    def scalar_sub(self, scopes, ty, depth, classes):
        """single-row by construction: a global aggregate"""
        r = self.rng
        sub = self.select(scopes, depth - 1, want=[ty], force_global_agg=True, classes=classes)
        classes.add("scalar_sub")
        return "(%s)" % sub.sql, "(scalar %s)" % sub.sx, ty

    def bool_sub(self, scopes, depth, classes):
        r = self.rng
        if r.chance(50):
            # mostly plain blocks; sometimes a grouped block (GROUP BY / HAVING inside a correlated subquery: the
            # decorrelation has to add the correlated columns to the subquery's own grouping)
            sub = self.select(scopes, depth - 1, want=None, classes=classes, plain=not r.chance(self.o.get("grouped_sub_chance", 25)))
            neg = r.below(2)
            classes.add("exists")
            return "(%sEXISTS (%s))" % ("NOT " if neg else "", sub.sql), "(exists %d %s)" % (neg, sub.sx), "bool"
        t2 = r.choice(["i32", "text", "i32"])
        a = self.expr(scopes, t2, 1, classes, False)
        sub = self.select(scopes, depth - 1, want=[t2], classes=classes, plain=True)
        if self.o.get("quantified", True) and r.chance(self.o.get("quantified_chance", 35)):
            kind = r.choice(["any", "all"])
            if r.chance(40):
                # ties with the extreme value of the subquery decide >= ALL / <= ALL / > ANY ...: compare a column
                # with a subquery over the same kind of column
                a = self.expr(scopes, t2, 0, classes, False)
            op = r.choice(["eq", "ne", "lt", "le", "gt", "ge"])
            sym = {"eq": "=", "ne": "<>", "lt": "<", "le": "<=", "gt": ">", "ge": ">="}[op]
            classes.add("in_sub")       # same decorrelation family (mark join)
            classes.add("quantified")
            return "(%s %s %s (%s))" % (a[0], sym, kind.upper(), sub.sql), "(quant %s %s %s %s)" % (kind, op, a[1], sub.sx), "bool"
        neg = r.below(2)
        classes.add("in_sub")
        classes.add("not_in_sub" if neg else "in_sub_pos")
        return "(%s %sIN (%s))" % (a[0], "NOT " if neg else "", sub.sql), "(insub %d %s %s)" % (neg, a[1], sub.sx), "bool"

    # ------------------------------------------------------------ FROM
    def from_item(self, outer, depth, classes):
        """returns (sql, sx_fromc, cols [(name, ty)], alias)"""
        r = self.rng
        al = self.alias()
        k = r.below(10)
        if k < 2 and self.o["subqueries"] and depth >= 2:
            sub = self.select(outer, depth - 1, want=None, classes=classes, plain=r.chance(60), corr=False)
            self._last_est = max(1, sub.est)
            return "(%s) AS %s" % (sub.sql, al), "(fq %s)" % sub.sx, list(zip(sub.names, sub.types)), al
        if self.o.get("values_items", True) and r.chance(8):
            # (VALUES (..), (..)) AS al(c0, c1): a literal relation
            ncols = 1 + r.below(3)
            tys = [r.choice(["i32", "text", "bool", "i32"]) for _ in range(ncols)]
            nrows = r.choice([1, 2, 3, 4])
            rows_sql, rows_sx = [], []
            for ri in range(nrows):
                cells = []
                for t in tys:
                    if ri > 0 and r.chance(15):
                        cells.append(("NULL", "(const N)"))
                    else:
                        cells.append(self.lit(t))
                rows_sql.append("(" + ", ".join(c[0] for c in cells) + ")")
                rows_sx.append("(" + " ".join(c[1] for c in cells) + ")")
            classes.add("values_item")
            self._last_est = nrows
            names = ["c%d" % i for i in range(ncols)]
            return "(VALUES %s) AS %s(%s)" % (", ".join(rows_sql), al, ", ".join(names)), \
                   "(fq (values (%s)))" % " ".join(rows_sx), list(zip(names, tys)), al
        free_views = [v for v in self.views if v[0] not in self.views_used]
        if free_views and r.chance(30):
            name, sub = r.choice(free_views)
            self.views_used.add(name)
            classes.add("view")
            classes |= sub.classes
            self._last_est = max(1, sub.est)
            return "%s AS %s" % (name, al), "(fq %s)" % sub.sx, list(zip(sub.names, sub.types)), al
        if k < 4 and self.ctes:
            # each CTE is referenced at most once per statement in this stream: two references to one CTE
            # share table refs inside the engine (self-joins of a CTE are a listed known finding)
            name, sub = self.ctes.pop(r.below(len(self.ctes)))
            classes.add("cte")
            classes |= sub.classes
            self._last_est = max(1, sub.est)
            return "%s AS %s" % (name, al), "(fq %s)" % sub.sx, list(zip(sub.names, sub.types)), al
        ti = r.below(len(self.tables))
        name, cols, rows_ = self.tables[ti]
        self._last_est = max(1, len(rows_))
        return "%s AS %s" % (name, al), "(fq (table %d))" % ti, list(cols), al

    def from_clause(self, outer, depth, classes):
        """returns (sql, sx, Scope)"""
        r = self.rng
        n = 1 if not self.o["joins"] else r.choice([1, 1, 2, 2, 3])
        jb = self.o["join_bias"]
        if jb and self.o["joins"]:
            n = r.choice([2, 3, 3, 4])   # what the join-reorder rule works on
        sql, sx, cols, al = self.from_item(outer, depth, classes)
        est = self._last_est
        scope_cols = [Col("%s.%s" % (al, c), t, i) for i, (c, t) in enumerate(cols)]
        for _ in range(n - 1):
            if self.o["lateral"] and depth >= 2 and r.chance(25) and est <= 200:
                # <left>, LATERAL (sub) / <left> INNER JOIN LATERAL (sub) ON cond: sub sees the left row at depth 1
                left_scope = Scope(scope_cols)
                sub = self.select([left_scope] + outer, depth - 1, want=None, classes=classes, plain=r.chance(50), corr=True)
                ral = self.alias()
                la = len(scope_cols)
                rcols = list(zip(sub.names, sub.types))
                rscope = [Col("%s.%s" % (ral, c), t, la + i) for i, (c, t) in enumerate(rcols)]
                classes.add("lateral")
                classes.add("correlated")
                if r.chance(60):
                    sql = "%s, LATERAL (%s) AS %s" % (sql, sub.sql, ral) if _ == n - 2 else \
                          "%s CROSS JOIN LATERAL (%s) AS %s" % (sql, sub.sql, ral)
                    sx = "(lateral cross %s %s - %d)" % (sx, sub.sx, len(rcols))
                else:
                    on = self.join_cond(Scope(scope_cols + rscope), scope_cols, rscope, outer, classes)
                    sql = "%s INNER JOIN LATERAL (%s) AS %s ON %s" % (sql, sub.sql, ral, on[0])
                    sx = "(lateral inner %s %s %s %d)" % (sx, sub.sx, on[1], len(rcols))
                scope_cols = scope_cols + rscope
                est *= 20
                continue
            # the reference evaluation materialises the product before filtering: bound its size
            rsql, rsx, rcols, ral = self.from_item(outer, depth, classes)
            if est * self._last_est > PRODUCT_BOUND:
                # too big: use a VALUES-free fallback, the smallest base table
                ti = min(range(len(self.tables)), key=lambda i: len(self.tables[i][2]))
                if est * max(1, len(self.tables[ti][2])) > PRODUCT_BOUND:
                    break
                name, tcols, rows_ = self.tables[ti]
                ral = self.alias()
                rsql, rsx, rcols = "%s AS %s" % (name, ral), "(fq (table %d))" % ti, list(tcols)
                self._last_est = max(1, len(rows_))
            est *= self._last_est
            la = len(scope_cols)
            rscope = [Col("%s.%s" % (ral, c), t, la + i) for i, (c, t) in enumerate(rcols)]
            kind = r.choice(["cross", "inner", "inner", "left", "left", "right", "comma"])
            if jb:
                kind = r.choice(["cross", "inner", "inner", "inner", "inner", "left", "comma"])
            if kind == "comma" and _ != n - 2:
                kind = "cross"   # `a, b JOIN c ON ...` binds as `a, (b JOIN c ...)`: keep commas last
            both = Scope(scope_cols + rscope)
            if kind in ("cross", "comma"):
                sql = "%s CROSS JOIN %s" % (sql, rsql) if kind == "cross" else "%s, %s" % (sql, rsql)
                sx = "(join cross %s %s - %d %d)" % (sx, rsx, la, len(rcols))
            else:
                using = None
                if n == 2 and self.o.get("using", True) and r.chance(20):
                    # JOIN ... USING (c): equality on the common column; the unqualified name c denotes the merged
                    # column (the right side's value for RIGHT JOIN, the left side's otherwise)
                    common = [(a, b) for a in scope_cols for b in rscope
                              if a.sql.split(".")[-1] == b.sql.split(".")[-1] and a.ty == b.ty and a.ty != "bool"]
                    if common:
                        using = r.choice(common)
                classes.add("join_" + kind)
                if using:
                    a, b = using
                    cn = a.sql.split(".")[-1]
                    classes.add("using")
                    sql = "%s %s JOIN %s USING (%s)" % (sql, kind.upper(), rsql, cn)
                    sx = "(join %s %s %s (cmp eq (col 0 %d) (col 0 %d)) %d %d)" % (kind, sx, rsx, a.idx, b.idx, la, len(rcols))
                    merged = Col(cn, a.ty, b.idx if kind == "right" else a.idx)
                    # other columns that the two sides share by name stay reachable through their qualified names only
                    scope_cols = scope_cols + rscope + [merged]
                    continue
                on = self.join_cond(both, scope_cols, rscope, outer, classes)
                sql = "%s %s JOIN %s ON %s" % (sql, kind.upper(), rsql, on[0])
                sx = "(join %s %s %s %s %d %d)" % (kind, sx, rsx, on[1], la, len(rcols))
            scope_cols = scope_cols + rscope
        self._from_est = est
        return sql, sx, Scope(scope_cols)

    def join_cond(self, both, lcols, rcols, outer, classes):
        r = self.rng
        conj = []
        # usually one equality between same-typed columns of the two sides
        pairs = [(a, b) for a in lcols for b in rcols if a.ty == b.ty and a.ty != "bool"]
        if pairs and r.chance(80):
            a, b = r.choice(pairs)
            if r.chance(50):
                a, b = b, a
            conj.append(("(%s = %s)" % (a.sql, b.sql), "(cmp eq (col 0 %d) (col 0 %d))" % (a.idx, b.idx)))
            if r.chance(60 if self.o["join_bias"] else 25) and len(pairs) > 1:
                a, b = r.choice(pairs)
                if r.chance(50):
                    a, b = b, a
                op = r.choice(["eq", "lt", "ge", "ne", "lt", "gt", "le"])
                sym = {"eq": "=", "lt": "<", "ge": ">=", "ne": "<>", "gt": ">", "le": "<="}[op]
                conj.append(("(%s %s %s)" % (a.sql, sym, b.sql), "(cmp %s (col 0 %d) (col 0 %d))" % (op, a.idx, b.idx)))
        if not conj or r.chance(25):
            side = Scope(lcols) if r.chance(50) else Scope(rcols)
            which = r.below(3)
            if which == 0:
                e = self.expr([side], "bool", 1, classes, False, corr=False)      # one-sided filter
            elif which == 1:
                e = self.expr([both], "bool", 1, classes, False, corr=False)      # arbitrary, may mix sides
                classes.add("join_mixed")
            else:
                e = self.expr([side], "bool", 1, classes, False, corr=False)
            conj.append((e[0], e[1]))
        sql = " AND ".join(c[0] for c in conj)
        sx = conj[0][1]
        for c in conj[1:]:
            sx = "(and %s %s)" % (sx, c[1])
        if len(conj) > 1:
            sql = "(" + sql + ")"
        return sql, sx

    # ------------------------------------------------------------ SELECT blocks
    def select(self, outer, depth, want=None, classes=None, force_global_agg=False, plain=False, corr=True, top=False):
        """option cte_multi: every SELECT block may reference each CTE of the statement once, different blocks
        independently.  Off in the general stream: several references to one CTE or view share table refs inside the
        engine (DESIGN 5-23: panics, wrong rows on complex bodies); the simple shapes that work are exercised by
        the directed family of C09 (one CTE referenced from two blocks)."""
        parent = self.ctes
        self.ctes = list(self.cte_all) if self.o.get("cte_multi", False) else parent
        try:
            return self._select(outer, depth, want, classes, force_global_agg, plain, corr, top)
        finally:
            self.ctes = parent

    def _select(self, outer, depth, want=None, classes=None, force_global_agg=False, plain=False, corr=True, top=False):
        """A SELECT block.  want: list of output types or None.  Returns Q (sql without trailing ORDER BY)."""
        r = self.rng
        classes = classes if classes is not None else set()
        fsql, fsx, scope = self.from_clause(outer, depth, classes)
        from_est = self._from_est
        scopes = [scope] + (outer if corr else [])
        wsql, wsx = None, "-"
        if r.chance(65):
            w = self.expr(scopes, "bool", min(depth, 2), classes, True, corr)
            wsql, wsx = w[0], w[1]
        if self.o["join_bias"] and r.chance(60):
            # column-to-column comparisons in WHERE: the join-reorder rule turns them into join conditions
            cs = [c for c in scope.cols if c.ty in ("i32", "i64", "text")]
            pairs = [(a, b) for a in cs for b in cs if a.ty == b.ty and a.idx != b.idx]
            extra = []
            for _ in range(1 + r.below(2)):
                if pairs:
                    a, b = r.choice(pairs)
                    op = r.choice(["eq", "eq", "lt", "gt", "le", "ge", "ne"])
                    sym = {"eq": "=", "lt": "<", "ge": ">=", "ne": "<>", "gt": ">", "le": "<="}[op]
                    extra.append(("(%s %s %s)" % (a.sql, sym, b.sql), "(cmp %s (col 0 %d) (col 0 %d))" % (op, a.idx, b.idx)))
            for e in extra:
                if wsql is None:
                    wsql, wsx = e
                else:
                    wsql, wsx = "(%s AND %s)" % (wsql, e[0]), "(and %s %s)" % (wsx, e[1])
            if r.chance(35):
                # an OR of ANDs of single-table predicates over several tables, some branches not mentioning a
                # table at all (the optimizer derives per-table OR filters from such predicates)
                cs = [c for c in scope.cols if c.ty in ("i32", "i64")]
                if len(cs) >= 2:
                    branches = []
                    for _ in range(2 + r.below(3)):
                        atoms = []
                        for c in r.shuffle(cs)[:1 + r.below(2)]:
                            l = self.lit(c.ty)
                            op = r.choice(["eq", "eq", "lt", "ge"])
                            sym = {"eq": "=", "lt": "<", "ge": ">="}[op]
                            atoms.append(("(%s %s %s)" % (c.sql, sym, l[0]), "(cmp %s (col 0 %d) %s)" % (op, c.idx, l[1])))
                        bsql, bsx = atoms[0]
                        for a in atoms[1:]:
                            bsql, bsx = "(%s AND %s)" % (bsql, a[0]), "(and %s %s)" % (bsx, a[1])
                        branches.append((bsql, bsx))
                    osql, osx = branches[0]
                    for b in branches[1:]:
                        osql, osx = "(%s OR %s)" % (osql, b[0]), "(or %s %s)" % (osx, b[1])
                    classes.add("or_of_ands")
                    if wsql is None:
                        wsql, wsx = osql, osx
                    else:
                        wsql, wsx = "(%s AND %s)" % (wsql, osql), "(and %s %s)" % (wsx, osx)
        grouped = force_global_agg or (self.o["groups"] and not plain and r.chance(35))
        names, types, sel_sql, sel_sx = [], [], [], []
        gsx, hsql, hsx, gsql = "-", None, "-", None
        if grouped:
            classes.add("group")
            keys = []
            if not force_global_agg and r.chance(80):
                nk = 1 + r.below(2)
                for c in r.shuffle(scope.cols):
                    # distinct columns only: the merged column of a USING join is the same column as one side's
                    # (ROLLUP (a, a) keeps a in the grouping set {a} for both positions)
                    if len(keys) < nk and all(k.idx != c.idx for k in keys):
                        keys.append(c)
            aggs = []  # (sql, sx, ty)

            def mk_agg(ty_want=None):
                a = mk_agg0(ty_want)
                if self.o.get("agg_filter", True) and r.chance(15):
                    # agg(x) FILTER (WHERE p): every aggregate here skips NULL inputs, so the reference side is
                    # agg(CASE WHEN p THEN x END) (count(*) counts the non-NULL constant)
                    p = self.expr(scopes, "bool", 1, classes, False, corr)
                    sx = parse_one(a[1])
                    if sx[0] == "countstar":
                        sx = ["count", "0", ["const", ["b", "1"]]]
                    sx[2] = ["case", [[parse_one(p[1]), sx[2]]], ["const", "N"]]
                    classes.add("agg_filter")
                    return "%s FILTER (WHERE %s)" % (a[0], p[0]), show_one(sx), a[2]
                return a

            def mk_agg0(ty_want=None):
                fn = r.choice(["countstar", "count", "sum", "min", "max", "min", "max"]) if ty_want is None else \
                    (r.choice(["countstar", "count", "sum"]) if ty_want == "i64" else r.choice(["min", "max"]))
                if ty_want == "bool":
                    fn = r.choice(["bool_and", "bool_or"])
                dis = 1 if (fn in ("count", "sum") and r.chance(25)) else 0
                if dis:
                    classes.add("distinct_agg")
                if fn == "countstar":
                    return "count(*)", "(countstar 0 (const N))", "i64"
                if fn in ("count",):
                    t2 = r.choice(["i32", "i64", "text"])
                    a = self.expr(scopes, t2, 1, classes, False, corr)
                    return "count(%s%s)" % ("DISTINCT " if dis else "", a[0]), "(count %d %s)" % (dis, a[1]), "i64"
                if fn == "sum":
                    a = self.expr(scopes, r.choice(INT_TYPES), 1, classes, False, corr)
                    return "sum(%s%s)" % ("DISTINCT " if dis else "", a[0]), "(sum %d %s)" % (dis, a[1]), "i64"
                if fn in ("bool_and", "bool_or"):
                    a = self.expr(scopes, "bool", 1, classes, False, corr)
                    return "%s(%s)" % (fn, a[0]), "(%s 0 %s)" % (fn, a[1]), "bool"
                t2 = ty_want if ty_want in ("i32", "text") else r.choice(["i32", "i64", "text"])
                a = self.expr(scopes, t2, 1, classes, False, corr)
                return "%s(%s)" % (fn, a[0]), "(%s 0 %s)" % (fn, a[1]), t2

            if want is not None:
                for t in want:
                    kc = [k for k in keys if k.ty == t]
                    if kc and r.chance(40):
                        k = r.choice(kc)
                        sel_sql.append(k.sql); sel_sx.append("(col 0 %d)" % keys.index(k)); types.append(t)
                    else:
                        if t not in ("i64", "i32", "text", "bool"):
                            t = "i64"
                        a = mk_agg(t)
                        aggs.append(a)
                        sel_sql.append(a[0]); sel_sx.append(("agg", len(aggs) - 1)); types.append(a[2])
            else:
                for k in keys:
                    if r.chance(85):
                        sel_sql.append(k.sql); sel_sx.append("(col 0 %d)" % keys.index(k)); types.append(k.ty)
                for _ in range(1 + r.below(3)):
                    a = mk_agg()
                    aggs.append(a)
                    if a[2] == "i64" and r.chance(25):
                        sel_sql.append("(%s + 1)" % a[0]); sel_sx.append(("aggplus", len(aggs) - 1)); types.append("i64")
                    else:
                        sel_sql.append(a[0]); sel_sx.append(("agg", len(aggs) - 1)); types.append(a[2])
            nk = len(keys)
            gsets = None
            if keys and self.o.get("grouping_sets", True) and r.chance(30):
                # ROLLUP / CUBE: the reference semantics sees the UNION ALL of one grouped block per
                # grouping set (keys outside the set are NULL), the engine sees the keyword
                gkind = r.choice(["ROLLUP", "CUBE"])
                if gkind == "ROLLUP":
                    gsets = [list(range(i)) for i in range(nk, -1, -1)]
                else:
                    gsets = [[i for i in range(nk) if m >> i & 1] for m in range(2 ** nk - 1, -1, -1)]
                classes.add("grouping_sets")
            if r.chance(25) and aggs:
                hi = r.below(len(aggs))
                if aggs[hi][2] in ("i64", "i32"):
                    classes.add("having")
                    hsql = "%s > 1" % aggs[hi][0]
                    hsx = "(cmp gt (col 0 %d) (const (i 1)))" % (nk + hi)
            if keys and hsql is None and r.chance(50 if gsets else 15):
                # a filter over a grouping key above the aggregate (what filter pushdown moves)
                ki = r.below(nk)
                classes.add("having")
                classes.add("having_key")
                if r.chance(30):
                    neg = r.chance(50)
                    hsql = "%s IS %sNULL" % (keys[ki].sql, "NOT " if neg else "")
                    hsx = "(isnull %d (col 0 %d))" % (1 if neg else 0, ki)
                elif keys[ki].ty in ("i32", "i64", "text"):
                    l = self.lit(keys[ki].ty)
                    op = r.choice(["eq", "ne", "lt", "ge"])
                    sym = {"eq": "=", "ne": "<>", "lt": "<", "ge": ">="}[op]
                    hsql = "%s %s %s" % (keys[ki].sql, sym, l[0])
                    hsx = "(cmp %s (col 0 %d) %s)" % (op, ki, l[1])
                else:
                    classes.discard("having_key")
            fix = []
            for s in sel_sx:
                if isinstance(s, tuple):
                    fix.append("(col 0 %d)" % (nk + s[1]) if s[0] == "agg" else
                               "(arith add 64 (col 0 %d) (const (i 1)))" % (nk + s[1]))
                else:
                    fix.append(s)
            sel_sx = fix
            gsx = "((%s) (%s))" % (" ".join("(col 0 %d)" % k.idx for k in keys),
                                   " ".join("(%s)" % a[1][1:-1] if False else a[1] for a in aggs))
            gsql = ", ".join(k.sql for k in keys) if keys else None
            if gsets:
                gsql = "%s (%s)" % (gkind, gsql)
        else:
            if want is not None:
                for t in want:
                    e = self.expr(scopes, t, min(depth, 2), classes, True, corr)
                    sel_sql.append(e[0]); sel_sx.append(e[1]); types.append(e[2])
            else:
                n = 1 + r.below(3)
                for _ in range(n):
                    t = r.choice(["i32", "i64", "text", "bool", "i32"])
                    e = self.expr(scopes, t, min(depth, 2), classes, not plain, corr)
                    sel_sql.append(e[0]); sel_sx.append(e[1]); types.append(e[2])
        distinct = (not grouped) and r.chance(15)
        if distinct:
            classes.add("distinct")
        # output aliases of the outermost block get their own prefix: `ORDER BY o1` must not also name a
        # column of a FROM item (the engine reports that as ambiguous instead of preferring the alias)
        names = [("r%d" if top else "o%d") % i for i in range(len(sel_sql))]
        sql = "SELECT %s%s FROM %s" % ("DISTINCT " if distinct else "",
                                       ", ".join("%s AS %s" % (s, n) for s, n in zip(sel_sql, names)), fsql)
        if wsql:
            sql += " WHERE %s" % wsql
        if gsql:
            sql += " GROUP BY %s" % gsql
        if hsql:
            sql += " HAVING %s" % hsql
        if grouped and gsets:
            blocks = []
            for gs in gsets:
                proj = ["(col 0 %d)" % gs.index(i) if i in gs else "(const N)" for i in range(nk)]
                proj += ["(col 0 %d)" % (len(gs) + j) for j in range(len(aggs))]
                g1 = "((%s) (%s))" % (" ".join("(col 0 %d)" % keys[i].idx for i in gs), " ".join(a[1] for a in aggs))
                blocks.append("(select %s %s %s - (%s) 0)" % (fsx, wsx, g1, " ".join(proj)))
            u = blocks[0]
            for b in blocks[1:]:
                u = "(union 1 %s %s)" % (u, b)
            sx = "(select (fq %s) %s - - (%s) 0)" % (u, hsx, " ".join(sel_sx))
            q = Q(sql, sx, types, names, classes)
            q.est = from_est * len(gsets)
            return q
        sx = "(select %s %s %s %s (%s) %d)" % (fsx, wsx, gsx, hsx, " ".join(sel_sx), 1 if distinct else 0)
        q = Q(sql, sx, types, names, classes)
        q.est = 1 if (grouped and not keys) else from_est
        return q

    # ------------------------------------------------------------ whole statements
    def query(self, depth=None):
        r = self.rng
        depth = depth if depth is not None else self.o["max_depth"]
        classes = set()
        with_sql = ""
        self.ctes = []
        self.cte_all = []
        self.views_used = set()   # each view at most once per statement (same reason as for CTEs)
        if self.o["views"] and r.chance(30) and len(self.views) < 4:
            self.view_n += 1
            vname = "v%d" % self.view_n
            vq = self.select([], max(1, depth - 1), classes=set(), plain=r.chance(50))
            vq.classes.add("view_def")
            self.prelude.append("CREATE TEMP VIEW %s AS %s" % (vname, vq.sql))
            self.views.append((vname, vq))
        if self.o["ctes"] and r.chance(20):
            cname = "cte%d" % r.below(100)
            cq = self.select([], depth - 1, classes=set(), plain=r.chance(50))
            mat = r.chance(30)
            self.ctes.append((cname, cq))
            self.cte_all.append((cname, cq))
            with_sql = "WITH %s AS %s(%s) " % (cname, "MATERIALIZED " if mat else "", cq.sql)
            classes.add("cte_def")
            if mat:
                classes.add("cte_materialized")
        q = self.select([], depth, classes=classes, top=True)
        if self.o["setops"] and r.chance(15):
            # chains are left associative: a UNION b UNION ALL c = (a UNION b) UNION ALL c
            for _ in range(1 if r.chance(60) else 2):
                q2 = self.select([], depth - 1, want=q.types, classes=classes, top=True)
                allf = r.chance(50)
                classes.add("union")
                q = Q("%s UNION %s%s" % (q.sql, "ALL " if allf else "", q2.sql),
                      "(union %d %s %s)" % (1 if allf else 0, q.sx, q2.sx), q.types, q.names, classes)
            if "UNION" in q.sql and q.sql.count(" UNION ") >= 2:
                classes.add("union_chain")
        ordered = False
        if self.o["order"] and r.chance(self.o.get("order_chance", 35)) and "union" not in classes:
            nk = 1 + r.below(min(2, len(q.types)))
            idxs = r.shuffle(list(range(len(q.types))))[:nk]
            lim, off = None, 0
            if r.chance(50):
                lim = r.choice([0, 1, 2, 3, 5, 10])
                if r.chance(40):
                    off = r.choice([0, 1, 2, 4])
            base_sql, base_sx = q.sql, q.sx
            if "group" in classes or "having" in classes or "distinct" in classes:
                # dialect: ORDER BY on a select-list alias of a grouped block is rejected; order a derived table
                wa = self.alias("w")
                newnames = ["p%d" % i for i in range(len(q.names))]
                base_sql = "SELECT %s FROM (%s) AS %s" % (", ".join("%s.%s AS %s" % (wa, n, m) for n, m in zip(q.names, newnames)), q.sql, wa)
                q.names = newnames
                base_sx = "(select (fq %s) - - - (%s) 0)" % (q.sx, " ".join("(col 0 %d)" % i for i in range(len(q.names))))
            keys, ksql = [], []
            for i in idxs:
                desc = r.below(2)
                nulls = r.choice([None, "FIRST", "LAST"])
                nf = (nulls == "FIRST") if nulls else bool(desc)
                keys.append("(%d %d %d)" % (i, desc, 1 if nf else 0))
                ksql.append("%s%s%s" % (q.names[i], " DESC" if desc else "", " NULLS %s" % nulls if nulls else ""))
            sql = "%s ORDER BY %s" % (base_sql, ", ".join(ksql))
            if lim is not None:
                sql += " LIMIT %d" % lim
                if off:
                    sql += " OFFSET %d" % off
            classes.add("order")
            q = Q(sql, "(order %s (%s) %s %d)" % (base_sx, " ".join(keys), "-" if lim is None else str(lim), off),
                  q.types, q.names, classes, ordered=True)
        q.sql = with_sql + q.sql
        q.classes = classes
        return q


TEXT_SHORT = ["", "a", "a", "b", "ab", "abc", "B", "é", "abcdefghijklmnop", "x y", "a'b"]
# lengths around the 12-byte inline threshold of string views, and long values that share their first 12+ bytes
# (sort keys carry a 12-byte prefix; ties on it are resolved by comparing the heap strings)
TEXT_EDGE = ["elevenchars", "twelve_chars", "thirteenchars", "twelve_chars", "twelve_charz", "shared_prefix_A", "shared_prefix_B",
             "shared_prefix_", "shared_prefix_AA", "élevenchar", "", "a", "b",
             # strings that differ only in trailing NUL bytes (the 12-byte key prefix is zero padded)
             "a\x00", "a\x00\x00", "twelve_char\x00", "b\x00"]


def make_db(rng, ntables=3, max_rows=30, edge_text=None):
    """small tables with duplicate/skewed keys, NULLs anywhere, an empty table now and then"""
    if edge_text is None:
        edge_text = rng.chance(30)
    tdom = TEXT_EDGE if edge_text else TEXT_SHORT
    tables = []
    for ti in range(ntables):
        ncols = 2 + rng.below(3)
        cols = []
        for ci in range(ncols):
            t = rng.choice(["i32", "i32", "i64", "text", "bool"]) if ci > 0 else "i32"
            cols.append(("c%d" % ci, t))
        nrows = rng.choice([0, 1, 2, 5, 9, 17, max_rows])
        rows = []
        for _ in range(nrows):
            row = []
            for _, t in cols:
                if rng.chance(12):
                    row.append("N")
                elif t in INT_TYPES:
                    row.append("I%d" % rng.choice([0, 1, 1, 2, 2, 3, 5, 7, 10, -1, -3, 20, 100]))
                elif t == "bool":
                    row.append("B%d" % rng.below(2))
                else:
                    row.append("S" + rng.choice(tdom))
            rows.append(row)
        tables.append(("t%d" % ti, cols, rows))
    return tables


def setup_stmts(tables):
    """tables: (name, cols, rows) or (name, cols, rows, "virtual") - a virtual table exists only on the reference
    side (the SQL text produces the same rows itself, e.g. from generate_series)"""
    out = []
    for t in tables:
        if len(t) > 3 and t[3] == "virtual":
            continue
        name, cols, rows = t[:3]
        out.append(gen.create_table(name, cols))
        out += gen.insert_rows(name, cols, rows)
    return out


def sx_db(tables):
    return "(" + " ".join(sx_rows(t[2]) for t in tables) + ")"
