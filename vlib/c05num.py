"""C05 / C12, topic numfn — integer / decimal numeric and bitwise scalar functions equal their
mathematical definition or fail (gcd lcm factorial & | xor ~ << >> round, and abs sign ceil floor trunc
round on integers / decimals).  Sub-check: merged into C05 and C12 by the lead via common.merge_results."""
import json, struct, time
from . import common, gen, tables_numfn, tables_arith

PID = "C05num"
PROPS = "props/C05num.v"
MINE = ("model/NumFn.v", "proofs/NumFnProofs.v", "props/C05num.v", "extract/ExtractNumfn.v", "gen/TablesNumfn.v")

INT_TYPES = {"i8": (8, "s"), "i16": (16, "s"), "i32": (32, "s"), "i64": (64, "s"),
             "u8": (8, "u"), "u16": (16, "u"), "u32": (32, "u"), "u64": (64, "u")}
SIGNED = ("i8", "i16", "i32", "i64")
PROFILE_MODE = {"dev": "d", "relfast": "r"}
I32MIN, I32MAX = -(1 << 31), (1 << 31) - 1
I64MIN, I64MAX = -(1 << 63), (1 << 63) - 1

# binary integer functions: name -> (sql over columns a, b; signed only?; type of b ('same' | 'i32'))
BIN = {"gcd": ("gcd(a, b)", True, "same"), "lcm": ("lcm(a, b)", True, "same"),
       "bitand": ("a & b", False, "same"), "bitor": ("a | b", False, "same"), "xor": ("xor(a, b)", False, "same"),
       "shl": ("a << b", False, "i32"), "shr": ("a >> b", False, "i32")}
FOPS = ("abs", "sign", "ceil", "floor", "trunc", "round")


def style(tb, key):
    """model variant letter for a source constant of gen/TablesNumfn.v: n = as first transcribed, c = repaired"""
    return "c" if tb.get(key) == 0 else "n"


def lo_hi(t):
    bits, sg = INT_TYPES[t]
    return (-(1 << (bits - 1)), (1 << (bits - 1)) - 1) if sg == "s" else (0, (1 << bits) - 1)


def rng_int(rng, t):
    bits, sg = INT_TYPES[t]
    lo, hi = lo_hi(t)
    c = rng.below(10)
    if c < 5:
        return rng.choice(gen.int_pool(bits // 8, sg == "s"))
    x = rng.next() & ((1 << bits) - 1)
    if c < 7:
        x &= (1 << (bits // 2)) - 1
    elif c < 8:
        x &= 0xFF
    if sg == "s" and x > hi:
        x -= 1 << bits
    if sg == "s" and rng.chance(30) and lo <= -x <= hi:
        x = -x
    return x


def sql_lit(t, cell):
    """gen.sql_lit, plus decimals of negative scale (the text of unscaled * 10^-s)"""
    if t.startswith("dec(") and cell != "N":
        u, p, s = cell[1:].split("/")
        if int(s) < 0:
            return "cast('%d' as %s)" % (int(u) * 10 ** (-int(s)), gen.tinfo(t)[0])
    return gen.sql_lit(t, cell)


def insert_rows(name, cols, rows, chunk=200):
    out = []
    for i in range(0, len(rows), chunk):
        vals = ", ".join("(" + ", ".join(sql_lit(t, c) for (_, t), c in zip(cols, r)) + ")" for r in rows[i:i + chunk])
        out.append("insert into %s values %s" % (name, vals))
    return out


# ---------------------------------------------------------------- outcomes
def stmt_outcome(res):
    if res is None:
        return ("panic", "no result (process died)")
    if "panic" in res:
        return ("panic", res["panic"])
    if "hang" in res:
        return ("hang", res["hang"])
    if res.get("ok"):
        return ("ok", res["rows"], res.get("schema"))
    return ("err", res.get("err", ""))


def case_stmt(r, k, nstmts):
    """outcome of statement k of a case of nstmts statements"""
    if "abort" in r:
        return ("panic", "process abort rc=%s %s" % (r.get("abort"), r.get("stderr", "")[-120:]))
    if "timeout" in r:
        return ("hang", "timeout")
    res = r.get("results", [])
    if k < 0:
        k += nstmts
    if k < len(res):
        return stmt_outcome(res[k])
    if res and not res[-1].get("ok") and ("panic" in res[-1] or "hang" in res[-1]):
        return ("skipped", "an earlier statement of the case stopped it: %s" % json.dumps(res[-1])[:160])
    return ("panic", "case stopped early")


def f64_bits_of_int(n):
    return struct.unpack("<Q", struct.pack("<d", float(n)))[0]


def fres_to_cell(tok):
    """model fres token -> the harness cell of the Float64 it denotes"""
    if tok == "nz":
        return "F8000000000000000"
    if tok.startswith("int:"):
        return "F%x" % f64_bits_of_int(int(tok[4:]))
    if tok.startswith("bits:"):
        return "F%x" % int(tok[5:])
    return tok


# ---------------------------------------------------------------- jobs
class Job:
    """one function instance: argument tuples (harness cells), the model's (impl, spec) for each"""
    def __init__(self, jid, fn, kind, cols, expr, tuples, mlines, info=None):
        self.id, self.fn, self.kind, self.cols, self.expr = jid, fn, kind, cols, expr
        self.tuples, self.mlines = tuples, mlines
        self.info = info or {}
        self.impl, self.spec, self.same = [], [], []   # same: impl == spec (floats: up to the sign of zero)
        self.exh = None          # exhaustive 8-bit job: dict(lo, hi, pred_sql, pred_py, sel_sql, sel_py)
        self.bind_level = False  # round(): the outcome is decided when the statement is planned

    def lit_expr(self, tup):
        e = self.expr
        # replace column names by literals (columns are single letters a, b, only as whole words)
        out, i = "", 0
        names = [c for c, _ in self.cols]
        while i < len(e):
            ch = e[i]
            prev = e[i - 1] if i else " "
            nxt = e[i + 1] if i + 1 < len(e) else " "
            if ch in names and not (prev.isalnum() or prev == "_") and not (nxt.isalnum() or nxt == "_"):
                k = names.index(ch)
                out += sql_lit(self.cols[k][1], tup[k])
            else:
                out += ch
            i += 1
        return out

    def canon(self, cell, schema_t):
        """engine cell -> the model's vocabulary (+ list of type complaints)"""
        notes = []
        if self.kind == "factorial":
            if schema_t != "Int128":
                notes.append("type %s" % schema_t)
            return ("ok:null" if cell == "N" else "ok:" + cell[1:]), notes
        if cell == "N":
            return "null", notes
        if self.kind == "int":
            want = gen.tinfo(self.cols[0][1])[1]
            if schema_t != want:
                notes.append("type %s, expected %s" % (schema_t, want))
            return "ok:" + cell[1:], notes
        if self.kind == "round":
            u, p, s = cell[1:].split("/")
            p0 = self.info["p"]
            want = "Decimal%d(%d,%s)" % (64 if p0 <= 18 else 128, p0, s)
            if schema_t != want or int(p) != p0:
                notes.append("type %s / cell %s, expected %s" % (schema_t, cell, want))
            return "ok:%s:%s" % (s, u), notes
        if self.kind == "float":
            if schema_t != "Float64":
                notes.append("type %s" % schema_t)
            return cell, notes
        raise ValueError(self.kind)

    def model_cell(self, tok):
        return fres_to_cell(tok) if self.kind == "float" else tok


def int_cells(vals):
    return ["I%d" % v for v in vals]


def bin_jobs(rng, tier, mode, tb):
    jobs = []
    n = 70 if tier == "quick" else 1500
    for fn, (expr, signed_only, bt) in BIN.items():
        for t, (bits, sg) in INT_TYPES.items():
            if signed_only and sg != "s":
                continue
            lo, hi = lo_hi(t)
            if bits == 8 and bt == "same":
                # all 65536 pairs, built inside the engine
                j = Job("exh-%s-%s" % (fn, t), fn, "int", [("a", t), ("b", t)], expr, None,
                        ["all8 %s %s %s %s" % (fn, style(tb, {"gcd": "gcd_native", "lcm": "lcm_native"}.get(fn, "")), mode, sg)])
                import math
                old_variant = style(tb, fn + "_native") == "n" if fn in ("gcd", "lcm") else False
                if fn == "gcd" and old_variant:
                    pred_sql, pred_py = "a <> -128 and b <> -128", (lambda a, b: a != -128 and b != -128)
                elif fn == "gcd":
                    # the gcd is 128 exactly for (MIN, MIN), (MIN, 0), (0, MIN)
                    pred_sql = "not ((a = -128 and (b = -128 or b = 0)) or (a = 0 and b = -128))"
                    pred_py = lambda a, b: not ((a == -128 and b in (-128, 0)) or (a == 0 and b == -128))
                elif fn == "lcm" and old_variant:
                    pred_sql = "a <> -128 and b <> -128 and lcm(cast(a as int), cast(b as int)) <= 127"
                    pred_py = lambda a, b: a != -128 and b != -128 and (a == 0 or b == 0 or abs(a * b) // math.gcd(a, b) <= 127)
                elif fn == "lcm":
                    pred_sql = "lcm(cast(a as int), cast(b as int)) <= 127"
                    pred_py = lambda a, b: a == 0 or b == 0 or abs(a * b) // math.gcd(a, b) <= 127
                else:
                    pred_sql, pred_py = None, (lambda a, b: True)
                j.exh = {"lo": lo, "hi": hi, "pred_sql": pred_sql, "pred_py": pred_py,
                         "sel_sql": "cast(a as int) % 3 <> 1", "sel_py": (lambda a, b: (abs(a) % 3) * (1 if a >= 0 else -1) != 1)}
                jobs.append(j)
                continue
            pairs = set()
            if bt == "i32":
                counts = [I32MIN, I32MIN + 1, -65, -64, -9, -8, -1, 0, 1, 2, 3, 7, 8, 9, 15, 16, 17, 31, 32, 33, 63, 64, 65,
                          127, 128, 255, 256, 65536, I32MAX - 1, I32MAX]
                avals = list(range(lo, hi + 1)) if bits == 8 else sorted(set(gen.int_pool(bits // 8, sg == "s") + [rng_int(rng, t) for _ in range(12)]))
                if bits == 8 and tier == "quick":
                    counts = [I32MIN, -8, -1, 0, 1, 3, 7, 8, 9, 32, 256, I32MAX]
                for a in avals:
                    for b in counts:
                        pairs.add((a, b))
                for _ in range(n if bits > 8 else 0):
                    pairs.add((rng_int(rng, t), rng.choice(counts) if rng.chance(50) else rng.below(bits + 3)))
            else:
                pool = gen.int_pool(bits // 8, sg == "s")
                small = [lo, lo + 1, hi, 0, 1, 2, 3, 6, 12, pool[len(pool) // 2]] + ([-1, -2, -6] if sg == "s" else [])
                for a in pool:
                    for b in (pool if tier != "quick" else small):
                        pairs.add((a, b))
                for _ in range(n):
                    a, b = rng_int(rng, t), rng_int(rng, t)
                    if fn in ("gcd", "lcm") and rng.chance(50):
                        g = 1 + rng.below(1000)
                        a, b = max(lo, min(hi, (a % 4096) * g)), max(lo, min(hi, (b % 4096) * g))
                    pairs.add((a, b))
            pairs = sorted(pairs)
            tbt = "i32" if bt == "i32" else t
            if fn in ("gcd", "lcm"):
                head = "%s %s %s" % (fn, style(tb, fn + "_native"), mode)
            elif fn == "shr":
                head = "shr %s %s" % (style(tb, "shr_zero_fill"), sg)
            else:
                head = "%s %s" % (fn, sg)
            ml = ["%s %d %d %d" % (head, bits, a, b) for a, b in pairs]
            jobs.append(Job("%s-%s" % (fn, t), fn, "int", [("a", t), ("b", tbt)], expr,
                            [("I%d" % a, "I%d" % b) for a, b in pairs], ml))
    # ~a
    for t, (bits, sg) in INT_TYPES.items():
        lo, hi = lo_hi(t)
        vals = list(range(lo, hi + 1)) if bits == 8 else sorted(set(gen.int_pool(bits // 8, sg == "s") + [rng_int(rng, t) for _ in range(n // 2)]))
        jobs.append(Job("bitnot-%s" % t, "bitnot", "int", [("a", t)], "~a", [("I%d" % v,) for v in vals],
                        ["bitnot %s %d %d" % (sg, bits, v) for v in vals]))
    # factorial: Int64 -> Int128
    vals = sorted(set(list(range(-3, 41)) + [I64MIN, I64MIN + 1, I64MAX, I64MAX - 1, 100, 1000, 1 << 32, -(1 << 40)]))
    jobs.append(Job("factorial", "factorial", "factorial", [("a", "i64")], "factorial(a)", [("I%d" % v,) for v in vals],
                    ["factorial %s %d" % (style(tb, "factorial_null"), v) for v in vals]))
    return jobs


ROUND_TYPES = [(4, 2), (5, 1), (9, 3), (10, 4), (18, 6), (18, 18), (18, 0), (20, 4), (38, 10), (38, 38), (10, -2)]


def dec_val(rng, p, k):
    """an unscaled value of a decimal(p, _), biased towards rounding ties at 10^k"""
    lim = 10 ** p - 1
    c = rng.below(10)
    if c < 5 and k >= 1:
        half = 10 ** k // 2
        x = rng.choice([half, -half, half - 1, -half + 1, half + 1, 3 * half, -3 * half, 10 ** k + half, -(10 ** k) - half,
                        10 ** k - 1, 10 ** k, lim - lim % (10 ** k) + half if lim >= half else half])
    elif c < 7:
        x = rng.choice([lim, -lim, 0, 1, -1, lim // 2, 10 ** (p - 1)])
    elif c < 9:
        x = rng.next() % (2 * lim + 1) - lim
    else:
        x = rng.next() % 2001 - 1000
    return max(-lim, min(lim, x))


def round_jobs(rng, tier, mode, tb):
    jobs = []
    nv = 8 if tier == "quick" else 60
    types = ROUND_TYPES if tier != "quick" else rng.shuffle(ROUND_TYPES)[:6] + [(18, 18), (10, 4)]
    for (p, s) in sorted(set(types)):
        t = "dec(%d,%d)" % (p, s)
        kd = 64 if p <= 18 else 128
        ns = sorted(set([None, 0, 1, 2, s - 1, s, s + 1, -1, -2, -(p - s) - 1, s - 18, s - 19, s - 38, s - 39,
                         127, 128, -128, -129, s - 127, s - 128, I64MAX, I64MIN] + [rng.below(s + 3) - 1 for _ in range(3)]),
                    key=lambda x: (x is None, x or 0))
        if tier == "quick":
            keep = [None, 0, s - 1, -1, s + 1, s - 19, s - 39, 127, 128, -128, -129, I64MIN]
            ns = [x for x in ns if x in keep] + rng.shuffle([x for x in ns if x not in keep])[:3]
        for nd in ns:
            n_eff = 0 if nd is None else nd
            k = max(0, s - min(n_eff, s))
            vals = sorted(set(dec_val(rng, p, min(k, 40)) for _ in range(nv)))
            expr = "round(a)" if nd is None else "round(a, %d)" % nd
            ml = ["round %s %s %d %d %d %d %d" % (style(tb, "d2d_scale_sub_native"), mode, kd, p, s, n_eff, v) for v in vals]
            j = Job("round-%d-%d-%s" % (p, s, "x" if nd is None else str(nd)), "round", "round", [("a", t)], expr,
                    [("D%d/%d/%d" % (v, p, s),) for v in vals], ml, {"p": p, "s": s, "n": nd, "native_sub": tb.get("d2d_scale_sub_native") != 0})
            j.bind_level = True
            jobs.append(j)
    return jobs


FLOAT_DEC_TYPES = [(5, 2), (9, 0), (16, 0), (18, 2), (18, 9), (18, 18), (20, 2), (30, 10), (38, 1), (38, 19), (38, 38)]


def float_jobs(rng, tier):
    jobs = []
    n = 25 if tier == "quick" else 600
    for op in FOPS:
        for t, (bits, sg) in INT_TYPES.items():
            lo, hi = lo_hi(t)
            if bits == 8:
                vals = list(range(lo, hi + 1))
            else:
                vals = sorted(set(gen.int_pool(bits // 8, sg == "s") + [rng_int(rng, t) for _ in range(n)] +
                                  [v for v in ((1 << 53), (1 << 53) + 1, -(1 << 53) - 1, (1 << 53) - 1, (1 << 54) + 2, (1 << 62) + 1) if lo <= v <= hi]))
            jobs.append(Job("%s-%s" % (op, t), op, "float", [("a", t)], "%s(a)" % op, [("I%d" % v,) for v in vals],
                            ["intfn %s %d" % (op, v) for v in vals], {"int": True}))
        for (p, s) in (FLOAT_DEC_TYPES if op != "round" else []):      # round(decimal) is the decimal overload (round_jobs)
            t = "dec(%d,%d)" % (p, s)
            lim = 10 ** p - 1
            vals = set([0, 1, -1, lim, -lim, 10 ** s, -(10 ** s), 10 ** s + 1, 10 ** s - 1, -(10 ** s) - 1, 5 * 10 ** max(s - 1, 0),
                        -5 * 10 ** max(s - 1, 0), 15 * 10 ** max(s - 1, 0), -15 * 10 ** max(s - 1, 0), 25 * 10 ** max(s - 1, 0),
                        (1 << 53) + 1, -(1 << 53) - 1, ((1 << 53) + 1) * 10 ** s, ((1 << 53) + 1) * 10 ** s + 1])
            for _ in range(n):
                vals.add(dec_val(rng, p, s))
            vals = sorted(v for v in vals if abs(v) <= lim)
            jobs.append(Job("%s-dec-%d-%d" % (op, p, s), op, "float", [("a", t)], "%s(a)" % op,
                            [("D%d/%d/%d" % (v, p, s),) for v in vals], ["decfn %s %d %d" % (op, v, s) for v in vals],
                            {"int": False, "p": p, "s": s}))
    return jobs


# ---------------------------------------------------------------- known classes (findings/C05num.json)
def classify(job, tup, impl, spec):
    """impl (== engine) differs from spec: the class of findings/C05num.json it falls in, or None.
    gcd, lcm, factorial, shr and the panic of round have no class any more (fixed: 9b10c8448, e09e186b9, eb21ac26a,
    36f5e65a8): any difference from the definition there is a violation."""
    fn = job.fn
    if fn == "round" and job.kind == "round":
        p, s, n = job.info["p"], job.info["s"], job.info["n"] or 0
        maxp = 18 if p <= 18 else 38
        if n > 127:
            return "round-digits-outside-i8" if impl == "err" else None
        if n < -128:
            return None
        return "round-rescale-factor-unrepresentable" if (s - min(n, s) > maxp and impl == "err") else None
    if job.kind == "float":
        v = int(tup[0][1:].split("/")[0])
        # beyond 2^53 the cast to Float64 rounds the argument; abs of a decimal of scale > 22 divides by a power
        # of ten that is itself rounded (1e23..1e38): the quotient can be one ulp off the nearest Float64
        if abs(v) > (1 << 53) or (fn == "abs" and not job.info.get("int") and job.info.get("s", 0) > 22):
            return "float-routed-inexact"
        return None
    return None


# ---------------------------------------------------------------- running
def chunks(xs, n):
    return [xs[i:i + n] for i in range(0, len(xs), n)]


def run_jobs(jobs, profile, gbin, gmodel, rng, tier, stats):
    quick = tier == "quick"
    # ---- model
    lines = []
    for j in jobs:
        lines += j.mlines
    mout = common.run_model(gmodel, "numfn", lines, timeout=1800)
    pos = 0
    for j in jobs:
        if j.exh is not None:
            rows = [l.split() for l in mout[pos:pos + 65536]]
            pos += 65536
            j.tuples = [("I" + r[0], "I" + r[1]) for r in rows]
            j.impl = [r[2] for r in rows]
            j.spec = [r[3] for r in rows]
            j.same = [r[2] == r[3] for r in rows]
        else:
            n = len(j.tuples)
            for l in mout[pos:pos + n]:
                f = l.split()
                j.impl.append(f[0])
                j.spec.append(f[1])
                j.same.append(f[2] == "1" if len(f) > 2 else f[0] == f[1])
            pos += n
    viol, known = [], {}
    cases, plan = [], []      # plan: (case id, job, [(stmt index, context, tuple indices)])

    def add_case(cid, stmts, j, items, timeout=120):
        cases.append({"id": cid, "mode": "det", "partitions": 1, "stmts": stmts, "timeout_s": timeout})
        plan.append((cid, j, items, stmts))

    for j in jobs:
        is_ok = [m.startswith("ok") for m in j.impl]
        if j.exh is not None:
            e = j.exh
            vals = [(int(t[0][1:]), int(t[1][1:])) for t in j.tuples]
            safe = [i for i, (a, b) in enumerate(vals) if e["pred_py"](a, b)]
            unsafe = [i for i, (a, b) in enumerate(vals) if not e["pred_py"](a, b)]
            wrong = [i for i in safe if not (is_ok[i] and j.impl[i] == j.spec[i])]
            if wrong:
                viol.append({"kind": "predicate-out-of-date", "job": j.id, "tuple": list(j.tuples[wrong[0]]),
                             "impl": j.impl[wrong[0]], "spec": j.spec[wrong[0]]})
                safe = [i for i in safe if i not in set(wrong)]
            sqlt = gen.tinfo(j.cols[0][1])[0]
            setup = ["create temp table p as select cast(x as %s) as a, cast(y as %s) as b from generate_series(%d,%d) g(x), generate_series(%d,%d) h(y)"
                     % (sqlt, sqlt, e["lo"], e["hi"], e["lo"], e["hi"])]
            pred = e["pred_sql"]
            sel_idx = [i for i in safe if e["sel_py"](*vals[i])]
            stmts = list(setup)
            items = []
            if pred:
                stmts.append("create temp table s as select a, b from p where %s" % pred)
                stmts.append("select a, b, %s from s" % j.expr); items.append((len(stmts) - 1, "column", safe))
                stmts.append("select a, b, %s from p where %s" % (j.expr, pred)); items.append((len(stmts) - 1, "where", safe))
                stmts.append("select a, b, case when %s then %s end from p" % (pred, j.expr)); items.append((len(stmts) - 1, "case", safe))
            else:
                stmts.append("select a, b, %s from p" % j.expr); items.append((len(stmts) - 1, "column", safe))
                stmts.append("select a, b, %s from p where %s" % (j.expr, e["sel_sql"])); items.append((len(stmts) - 1, "where", sel_idx))
                stmts.append("select a, b, case when %s then %s end from p" % (e["sel_sql"], j.expr)); items.append((len(stmts) - 1, "case", sel_idx))
            add_case("%s/%s/ctx" % (profile, j.id), stmts, j, items, timeout=300)
            if unsafe:
                # all unrepresentable pairs in one statement: must fail with an error
                add_case("%s/%s/batch" % (profile, j.id), setup + ["select a, b, %s from p where not (%s)" % (j.expr, pred)], j,
                         [(1, "batch", unsafe)])
            nlit = 150 if quick else 3000
            lit_safe = rng.shuffle(safe)[:nlit]
            keep = unsafe if len(unsafe) <= (40 if quick else 600) else sorted(set(unsafe[:4] + unsafe[-4:] + rng.shuffle(unsafe)[:(40 if quick else 600)]))
        else:
            safe = [i for i, o in enumerate(is_ok)]
            safe = [i for i in safe if is_ok[i]]
            unsafe = [i for i in range(len(j.tuples)) if not is_ok[i]]
            if j.bind_level:
                # the outcome class is decided at plan time for the whole statement
                allok = not unsafe and bool(safe)
                cols = [("id", "i32")] + j.cols
                rows = [["I%d" % i] + list(j.tuples[i]) for i in range(len(j.tuples))]
                base = [gen.create_table("t", cols)] + insert_rows("t", cols, rows)
                stmts = list(base)
                stmts.append("select id, %s from t" % j.expr); items = [(len(stmts) - 1, "column", list(range(len(j.tuples))))]
                if allok:
                    sel = [i for i in range(len(j.tuples)) if i % 3 != 1]
                    stmts.append("select id, %s from t where id %% 3 <> 1" % j.expr); items.append((len(stmts) - 1, "where", sel))
                    stmts.append("select id, case when id %% 3 <> 1 then %s end from t" % j.expr); items.append((len(stmts) - 1, "case", sel))
                    stmts.append("select " + ", ".join(j.lit_expr(j.tuples[i]) for i in range(len(j.tuples))))
                    items.append((len(stmts) - 1, "literal-row", list(range(len(j.tuples)))))
                add_case("%s/%s/ctx" % (profile, j.id), stmts, j, items)
                if not allok:
                    # row-level failures (none expected for round under the theorem's hypotheses) and the constant path
                    for i in (list(range(len(j.tuples)))[:2] if unsafe and not safe else unsafe[:6]):
                        add_case("%s/%s/lit%d" % (profile, j.id, i), ["select " + j.lit_expr(j.tuples[i])], j, [(0, "literal", [i])], timeout=30)
                continue
            cols = [("id", "i32")] + j.cols + [("ok", "bool")]
            rows = [["I%d" % i] + list(j.tuples[i]) + ["B%d" % (1 if is_ok[i] else 0)] for i in range(len(j.tuples))]
            stmts = [gen.create_table("t", cols)] + insert_rows("t", cols, rows, chunk=250)
            items = []
            stmts.append("create temp table s as select * from t where ok")
            stmts.append("select id, %s from s" % j.expr); items.append((len(stmts) - 1, "column", safe))
            if unsafe:
                stmts.append("select id, %s from t where ok" % j.expr); items.append((len(stmts) - 1, "where", safe))
                stmts.append("select id, case when ok then %s end from t" % j.expr); items.append((len(stmts) - 1, "case", safe))
            else:
                sel = [i for i in safe if i % 3 != 1]
                stmts.append("select id, %s from t where id %% 3 <> 1" % j.expr); items.append((len(stmts) - 1, "where", sel))
                stmts.append("select id, case when id %% 3 <> 1 then %s end from t" % j.expr); items.append((len(stmts) - 1, "case", sel))
            add_case("%s/%s/ctx" % (profile, j.id), stmts, j, items)
            nlit = 60 if quick else 1200
            lit_safe = safe if len(safe) <= nlit else rng.shuffle(safe)[:nlit]
            keep = unsafe if len(unsafe) <= (25 if quick else 400) else sorted(set(unsafe[:3] + unsafe[-3:] + rng.shuffle(unsafe)[:(25 if quick else 400)]))
        # constant-folded literals: many expressions per statement for the tuples that return a value
        for ci, ch in enumerate(chunks(sorted(lit_safe), 100)):
            add_case("%s/%s/lit-%d" % (profile, j.id, ci), ["select " + ", ".join(j.lit_expr(j.tuples[i]) for i in ch)], j,
                     [(0, "literal-row", ch)])
        for i in keep:
            add_case("%s/%s/one%d" % (profile, j.id, i), ["select " + j.lit_expr(j.tuples[i])], j, [(0, "literal", [i])], timeout=30)
    real = common.run_harness(gbin, "sql", cases, timeout=2400)
    by_id = {c["id"]: r for c, r in zip(cases, real)}

    def replay_of(j, i, ctx):
        tup = j.tuples[i]
        if ctx in ("literal", "literal-row"):
            return ["select " + j.lit_expr(tup)]
        cols = j.cols
        st = [gen.create_table("t", cols)] + insert_rows("t", cols, [list(tup)])
        if ctx == "where":
            return st + ["select %s from t where true" % j.expr]
        if ctx == "case":
            return st + ["select case when true then %s end from t" % j.expr]
        return st + ["select %s from t" % j.expr]

    def judge(j, i, ctx, eng, notes):
        """eng: engine outcome in the model's vocabulary"""
        stats["evaluations"] += 1
        impl, spec = j.model_cell(j.impl[i]), j.model_cell(j.spec[i])
        stats["distinct"].add((j.fn, j.cols[0][1], ctx, impl[:3], spec[:3], profile))
        for nt in notes:
            viol.append({"kind": "result-type", "note": nt, "function": j.expr, "types": [c[1] for c in j.cols], "context": ctx,
                         "args": list(j.tuples[i]), "stmts": replay_of(j, i, ctx)})
        same = j.same[i]
        if eng != impl:
            kind = "engine differs from the faithful model and from the definition" if eng != spec else \
                "engine agrees with the definition but not with the faithful model (model out of date)"
            viol.append({"kind": "correspondence", "what": kind, "function": j.expr, "types": [c[1] for c in j.cols], "context": ctx,
                         "profile": profile, "args": list(j.tuples[i]), "engine": eng, "model": impl, "spec": spec,
                         "stmts": replay_of(j, i, ctx)})
            return
        if same:
            return
        cls = classify(j, j.tuples[i], j.impl[i], j.spec[i])
        info = {"function": j.expr, "types": [c[1] for c in j.cols], "context": ctx, "profile": profile, "args": list(j.tuples[i]),
                "engine": eng, "definition": (j.spec[i] if j.kind == "float" else spec), "stmts": replay_of(j, i, ctx)}
        if cls is None:
            viol.append(dict(info, kind="deviates-from-definition"))
        else:
            k = known.setdefault(cls, {"count": 0, "example": info})
            k["count"] += 1

    for cid, j, items, stmts in plan:
        r = by_id[cid]
        for (k, ctx, idx) in items:
            o = case_stmt(r, k, len(stmts))
            if ctx in ("literal",):
                i = idx[0]
                if o[0] == "ok":
                    eng, notes = j.canon(o[1][0][0], o[2][0][1])
                    judge(j, i, ctx, eng, notes)
                else:
                    judge(j, i, ctx, o[0], [])
                continue
            if ctx == "batch":
                stats["batch_statements"] += 1
                if o[0] == "ok":
                    # rows came back although every pair is unrepresentable: judge a few on their own
                    for row in o[1][:8]:
                        ii = [i for i in idx if j.tuples[i] == (row[0], row[1])]
                        if ii:
                            eng, notes = j.canon(row[2], o[2][2][1])
                            judge(j, ii[0], ctx, eng, notes)
                elif o[0] != "err":
                    i0 = idx[0]
                    cls = classify(j, j.tuples[i0], j.impl[i0], j.spec[i0])
                    info = {"function": j.expr, "context": "batch of unrepresentable pairs", "profile": profile, "outcome": list(o)[:2],
                            "stmts": stmts}
                    if cls and o[0] == "panic" and "panic" in [j.impl[i] for i in idx[:50]]:
                        kk = known.setdefault(cls, {"count": 0, "example": info})
                        kk["count"] += 1
                    else:
                        viol.append(dict(info, kind="batch-not-error"))
                continue
            if j.bind_level and o[0] != "ok":
                # the whole statement failed at plan time: every tuple has this outcome
                if o[0] == "skipped":
                    continue
                for i in idx[:3]:
                    judge(j, i, ctx, o[0], [])
                continue
            if o[0] != "ok":
                if o[0] == "skipped":
                    continue
                viol.append({"kind": "context-statement-failed", "what": "the model predicts a value for every selected row, the statement "
                             "did not complete (a row outside the selection was evaluated, or the model is out of date)",
                             "function": j.expr, "types": [c[1] for c in j.cols], "context": ctx, "profile": profile,
                             "outcome": list(o)[:2], "stmts": stmts if len(stmts) < 8 else stmts[:2] + ["..."] + [stmts[k]]})
                continue
            rows, schema = o[1], o[2]
            if ctx == "literal-row":
                if len(rows) != 1 or len(rows[0]) != len(idx):
                    viol.append({"kind": "row-shape", "stmts": stmts, "rows": rows[:2]})
                    continue
                for pos_, i in enumerate(idx):
                    eng, notes = j.canon(rows[0][pos_], schema[pos_][1])
                    judge(j, i, ctx, eng, notes)
                continue
            nkey = 2 if j.exh is not None else 1
            got = {}
            for row in rows:
                got.setdefault(tuple(row[:nkey]), []).append(row[nkey])
            st = schema[nkey][1]
            want_keys = set()
            for i in idx:
                key = tuple(j.tuples[i]) if j.exh is not None else ("I%d" % i,)
                want_keys.add(key)
                lst = got.get(key)
                if not lst:
                    viol.append({"kind": "missing-row", "function": j.expr, "context": ctx, "args": list(j.tuples[i]), "stmts": replay_of(j, i, ctx)})
                    continue
                eng, notes = j.canon(lst.pop(), st)
                judge(j, i, ctx, eng, notes)
            if ctx == "case":
                # rows outside the selection must be NULL
                extra = [(k_, v) for k_, v in got.items() if k_ not in want_keys and any(c != "N" for c in v)]
            else:
                extra = [(k_, v) for k_, v in got.items() if v and k_ not in want_keys] + [(k_, v) for k_, v in got.items() if v and k_ in want_keys]
            if extra:
                viol.append({"kind": "unexpected-rows", "function": j.expr, "context": ctx, "rows": [list(k_) + v for k_, v in extra[:4]],
                             "stmts": stmts if len(stmts) < 8 else stmts[:2] + ["..."] + [stmts[k]]})
    return viol, known

# ---------------------------------------------------------------- comparisons across integer types
CMP_OPS = ["<", "<=", "=", "<>", ">=", ">"]
CMP_BOUNDARY = [-(1 << 63), -(1 << 63) + 1, -(1 << 53) - 1, -(1 << 53), -(1 << 31), -32768, -129, -128, -127, -2, -1, 0, 1, 2, 127, 128, 255, 256,
                32767, 32768, 65535, 65536, (1 << 31) - 1, 1 << 31, (1 << 32) - 1, 1 << 32, (1 << 53) - 1, 1 << 53, (1 << 53) + 1, (1 << 53) + 2,
                (1 << 63) - 2, (1 << 63) - 1, 1 << 63, (1 << 63) + 1, (1 << 64) - 2, (1 << 64) - 1]


def cmp_bits(a, b):
    return "".join("1" if x else "0" for x in (a < b, a <= b, a == b, a != b, a >= b, a > b))


def stage_cmp(rng, tier, gbin, gmodel, stats):
    """the six comparisons between operands of any two of the eight integer types against the comparison of the integers
    (extracted spec_cmp): projected over columns, as WHERE predicate, inside CASE, constant-folded, as the key of an
    equi-join (hash join), and -- per type -- ORDER BY / GROUP BY / min / max"""
    names = list(INT_TYPES)
    combos = [(x, y) for x in names for y in names]
    if tier == "quick":
        must = [("i64", "u64"), ("u64", "i64"), ("i32", "u64"), ("u64", "i8"), ("i8", "u8"), ("u32", "i32"), ("i64", "i64"), ("u64", "u64"),
                ("i16", "u64"), ("u16", "i64")]
        combos = must + [c for c in rng.shuffle(combos) if c not in must][:8]
    pools = {}
    for t in names:
        lo, hi = lo_hi(t)
        vs = sorted(set([v for v in CMP_BOUNDARY if lo <= v <= hi] + [lo, hi] + [rng_int(rng, t) for _ in range(3)]))
        pools[t] = vs
    cases, meta, lines = [], [], []
    for (ta, tb) in combos:
        va, vb = pools[ta], pools[tb]
        if tier == "quick" and len(va) * len(vb) > 500:
            keep = lambda vs: sorted(set(vs[:2] + vs[-4:] + [v for v in vs if abs(v) in ((1 << 53), (1 << 53) + 1, (1 << 63) - 1, 0, 1)] + rng.shuffle(vs)[:6]))
            va, vb = keep(va), keep(vb)
        setup = [gen.create_table("x", [("a", ta)]), gen.create_table("y", [("b", tb)])] + \
            insert_rows("x", [("a", ta)], [["I%d" % v] for v in va]) + insert_rows("y", [("b", tb)], [["I%d" % v] for v in vb])
        stmts = list(setup)
        idx = {}
        stmts.append("select a, b, %s from x, y" % ", ".join("a %s b" % o for o in CMP_OPS)); idx["column"] = len(stmts) - 1
        stmts.append("select a, b, %s from x, y" % ", ".join("case when a %s b then 1 else 0 end" % o for o in CMP_OPS)); idx["case"] = len(stmts) - 1
        for k, o in enumerate(CMP_OPS):
            stmts.append("select a, b from x, y where a %s b" % o); idx["where%d" % k] = len(stmts) - 1
        stmts.append("select a, b from x join y on a = b"); idx["join"] = len(stmts) - 1
        stmts.append("select a, b from x left join y on a = b"); idx["leftjoin"] = len(stmts) - 1
        lit = [(rng.choice(va), rng.choice(vb)) for _ in range(10)] + \
            [(a, b) for a in va for b in vb if a != b and float(a) == float(b)][:6]
        stmts.append("select " + ", ".join("%s %s %s" % (gen.sql_lit(ta, "I%d" % a), o, gen.sql_lit(tb, "I%d" % b)) for a, b in lit for o in CMP_OPS))
        idx["literal"] = len(stmts) - 1
        cases.append({"id": "cmp-%s-%s" % (ta, tb), "mode": "det", "partitions": 1, "stmts": stmts, "timeout_s": 120})
        meta.append((ta, tb, va, vb, lit, stmts, idx))
        lines += ["cmp %d %d" % (a, b) for a in va for b in vb] + ["cmp %d %d" % (a, b) for a, b in lit]
    # per type: ORDER BY, GROUP BY, min, max over a column holding the pool twice
    ocases = []
    for t in names:
        vs = pools[t]
        rows = [["I%d" % v] for v in rng.shuffle(vs + vs)]
        stmts = [gen.create_table("x", [("a", t)])] + insert_rows("x", [("a", t)], rows) + \
            ["select a from x order by a", "select a, count(*) from x group by a", "select min(a), max(a) from x",
             "select a from x order by a desc limit 3"]
        ocases.append({"id": "ord-%s" % t, "mode": "det", "partitions": 1, "stmts": stmts, "timeout_s": 60})
    mout = common.run_model(gmodel, "numfn", lines)
    real = common.run_harness(gbin, "sql", cases + ocases, timeout=1200)
    viol, pos = [], 0

    def bad(kind, ta, tb, a, b, op, eng, want, ctx, sql):
        viol.append({"kind": "comparison", "what": kind, "types": [ta, tb], "args": [a, b], "operator": op, "context": ctx, "engine": eng,
                     "definition": want, "stmts": sql})

    def one(ta, tb, a, b, tmpl):
        return [gen.create_table("x", [("a", ta)]), gen.create_table("y", [("b", tb)])] + insert_rows("x", [("a", ta)], [["I%d" % a]]) + \
            insert_rows("y", [("b", tb)], [["I%d" % b]]) + [tmpl]

    for (ta, tb, va, vb, lit, stmts, idx), r in zip(meta, real[:len(cases)]):
        want = {}
        for a in va:
            for b in vb:
                want[(a, b)] = mout[pos]; pos += 1
                if want[(a, b)] != cmp_bits(a, b):
                    viol.append({"kind": "model-driver", "what": "extracted spec_cmp disagrees with the integer comparison", "args": [a, b]})
        wlit = mout[pos:pos + len(lit)]; pos += len(lit)
        outs = {k: case_stmt(r, v, len(stmts)) for k, v in idx.items()}
        failed = [k for k, o in outs.items() if o[0] != "ok"]
        if failed:
            k = failed[0]
            viol.append({"kind": "comparison-statement-failed", "types": [ta, tb], "context": k, "outcome": list(outs[k])[:2],
                         "stmts": stmts[:2] + ["..."] + [stmts[idx[k]]]})
            continue
        stats["distinct"].add(("cmp", ta, tb))
        for ctx in ("column", "case"):
            seen = set()
            for row in outs[ctx][1]:
                a, b = int(row[0][1:]), int(row[1][1:])
                seen.add((a, b))
                got = "".join("1" if c in ("B1", "I1") else "0" if c in ("B0", "I0") else "?" for c in row[2:])
                stats["evaluations"] += 6
                w = want.get((a, b))
                if got != w:
                    k = [i for i in range(6) if got[i] != (w or "??????")[i]][0]
                    tm = "select a %s b from x, y" % CMP_OPS[k] if ctx == "column" else "select case when a %s b then 1 else 0 end from x, y" % CMP_OPS[k]
                    bad("value", ta, tb, a, b, CMP_OPS[k], got, w, ctx, one(ta, tb, a, b, tm))
            if seen != set(want):
                viol.append({"kind": "comparison", "what": "cross join lost or invented rows", "types": [ta, tb], "context": ctx})
        for k, o in enumerate(CMP_OPS):
            got = set((int(row[0][1:]), int(row[1][1:])) for row in outs["where%d" % k][1])
            exp = set(p_ for p_, w in want.items() if w[k] == "1")
            stats["evaluations"] += len(want)
            for (a, b) in sorted(got ^ exp)[:2]:
                bad("WHERE keeps exactly the pairs for which the comparison holds", ta, tb, a, b, o, (a, b) in got, (a, b) in exp, "where",
                    one(ta, tb, a, b, "select a, b from x, y where a %s b" % o))
        exp = sorted(p_ for p_, w in want.items() if w[2] == "1")
        got = sorted((int(row[0][1:]), int(row[1][1:])) for row in outs["join"][1])
        stats["evaluations"] += len(want)
        if got != exp:
            d = sorted(set(got) ^ set(exp))[:1] or [exp[0] if exp else (0, 0)]
            bad("equi-join on keys of two integer types pairs exactly the equal integers", ta, tb, d[0][0], d[0][1], "=", got[:6], exp[:6], "join",
                one(ta, tb, d[0][0], d[0][1], "select a, b from x join y on a = b"))
        gotl = sorted(((int(row[0][1:]), None if row[1] == "N" else int(row[1][1:])) for row in outs["leftjoin"][1]), key=lambda t_: (t_[0], t_[1] is None, t_[1] or 0))
        expl = sorted(([(a, b) for (a, b) in exp] + [(a, None) for a in va if a not in set(vb)]), key=lambda t_: (t_[0], t_[1] is None, t_[1] or 0))
        stats["evaluations"] += len(va)
        if gotl != expl:
            d = [x for x in gotl if x not in expl][:1] or [x for x in expl if x not in gotl][:1]
            bad("left equi-join keeps every left row once per equal right key", ta, tb, d[0][0], d[0][1], "=", gotl[:6], expl[:6], "left join",
                stmts[:2] + ["..."] + [stmts[idx["leftjoin"]]])
        cells = outs["literal"][1][0]
        for i, ((a, b), w) in enumerate(zip(lit, wlit)):
            got = "".join("1" if c == "B1" else "0" if c == "B0" else "?" for c in cells[6 * i:6 * i + 6])
            stats["evaluations"] += 6
            if got != w:
                k = [x for x in range(6) if got[x] != w[x]][0]
                bad("value", ta, tb, a, b, CMP_OPS[k], got, w, "literal",
                    ["select %s %s %s" % (gen.sql_lit(ta, "I%d" % a), CMP_OPS[k], gen.sql_lit(tb, "I%d" % b))])
    for t, c, r in zip(names, ocases, real[len(cases):]):
        vs = pools[t]
        n = len(c["stmts"])
        o_ord, o_grp, o_mm, o_top = [case_stmt(r, k, n) for k in (-4, -3, -2, -1)]
        if any(o[0] != "ok" for o in (o_ord, o_grp, o_mm, o_top)):
            viol.append({"kind": "comparison-statement-failed", "types": [t], "context": "order/group", "stmts": c["stmts"][-4:]})
            continue
        stats["evaluations"] += 4
        got = [int(row[0][1:]) for row in o_ord[1]]
        if got != sorted(vs + vs):
            viol.append({"kind": "comparison", "what": "ORDER BY is not the order of the integers", "types": [t], "engine": got[:8], "stmts": c["stmts"][:1] + ["..."] + c["stmts"][-4:-3]})
        grp = sorted((int(row[0][1:]), int(row[1][1:])) for row in o_grp[1])
        if grp != [(v, 2) for v in vs]:
            viol.append({"kind": "comparison", "what": "GROUP BY does not group exactly the equal integers", "types": [t], "engine": grp[:8], "stmts": c["stmts"][-3:-2]})
        if [o_mm[1][0][0], o_mm[1][0][1]] != ["I%d" % vs[0], "I%d" % vs[-1]]:
            viol.append({"kind": "comparison", "what": "min / max", "types": [t], "engine": o_mm[1][0], "stmts": c["stmts"][-2:-1]})
        if [int(row[0][1:]) for row in o_top[1]] != sorted(vs + vs, reverse=True)[:3]:
            viol.append({"kind": "comparison", "what": "ORDER BY DESC LIMIT", "types": [t], "engine": o_top[1], "stmts": c["stmts"][-1:]})
    return viol


# ---------------------------------------------------------------- comparisons with a decimal operand
from fractions import Fraction

DEC_CMP_TYPES = [(4, 1), (4, 2), (10, 0), (10, 1), (10, 2), (9, 9), (17, 4), (18, 0), (18, 2), (18, 18), (19, 2), (19, 18), (20, 2),
                 (38, 0), (38, 10), (38, 38), (10, -2)]
DEC_CMP_PAIRS = [((10, 2), (10, 2)), ((10, 2), (4, 1)), ((4, 1), (10, 2)), ((10, 2), (10, 0)), ((10, 0), (10, 2)), ((10, 2), (10, 1)),
                 ((18, 0), (18, 18)), ((18, 18), (18, 0)), ((18, 2), (19, 2)), ((19, 2), (18, 2)), ((18, 0), (19, 18)), ((38, 0), (38, 38)),
                 ((38, 10), (20, 2)), ((20, 2), (38, 10)), ((10, -2), (10, 2)), ((17, 4), (9, 9)), ((38, 0), (38, 0)), ((20, 2), (4, 1)),
                 ((18, 18), (18, 18)), ((4, 2), (4, 1))]
CMP8 = ["<", "<=", "=", "<>", ">=", ">", "is distinct from", "is not distinct from"]
RATIONALS = [Fraction(0), Fraction(1), Fraction(-1), Fraction(3, 2), Fraction(-3, 2), Fraction(3, 20), Fraction(15), Fraction(2), Fraction(1, 10),
             Fraction(149, 100), Fraction(151, 100), Fraction(100), Fraction(9999, 100)]


def opnd_type(o):
    return "dec(%d,%d)" % (o[1], o[2]) if o[0] == "d" else o[1] if o[0] == "i" else "f64"


def opnd_cell(o):
    if o[-1] is None:
        return "N"
    if o[0] == "d":
        return "D%d/%d/%d" % (o[3], o[1], o[2])
    return ("I%d" if o[0] == "i" else "F%x") % o[-1]


def opnd_model(o):
    v = "N" if o[-1] is None else str(o[-1])
    if o[0] == "d":
        return "d:%d:%d:%d:%s" % (64 if o[1] <= 18 else 128, o[1], o[2], v)
    if o[0] == "i":
        return "i:%s:%d:%s" % (INT_TYPES[o[1]][1], INT_TYPES[o[1]][0], v)
    return "f:" + v


def dec_values(rng, p, s, n_extra):
    lim = 10 ** p - 1
    vs = set()
    for r in RATIONALS:
        u = r * Fraction(10) ** s
        if u.denominator == 1 and abs(u.numerator) <= lim:
            vs.add(u.numerator)
    vs.update([lim, -lim, 1, -1, lim - 1, 0])
    for x in ((1 << 53) + 1, (1 << 53), -(1 << 53) - 1):
        if abs(x) <= lim:
            vs.add(x)
    for _ in range(n_extra):
        vs.add(dec_val(rng, p, max(s, 0)))
    return sorted(vs)


def side_values(rng, kind, n_extra):
    """operands of one side: ('d', p, s, v) | ('i', t, v) | ('f', bits), always including NULL"""
    if kind[0] == "d":
        return [("d", kind[1], kind[2], v) for v in dec_values(rng, kind[1], kind[2], n_extra)] + [("d", kind[1], kind[2], None)]
    if kind[0] == "i":
        lo, hi = lo_hi(kind[1])
        vs = sorted(set(v for v in [0, 1, -1, 2, 15, 100, lo, hi, hi - 1, (1 << 53) + 1, 1 << 53, 10 ** 19, 10 ** 19 - 1] if lo <= v <= hi))
        return [("i", kind[1], v) for v in vs] + [("i", kind[1], None)]
    fl = [0.0, 1.5, -1.5, 0.1, 0.15, 2.0, 1.0, -1.0, 15.0, 9007199254740992.0, 9007199254740994.0, 1e20, 123456789012345678.0, 0.5, 1.49]
    return [("f", gen.f64_bits(x)) for x in fl] + [("f", None)]


def deccmp_class(tb, l, r, impl, spec):
    """impl (== engine) differs from spec: the class of findings/C05num.json, or None.  bigint ~ decimal64 through Float64,
    ubigint ~ decimal failing and the i8 overflow of decimal_bind have no class any more (fixed: 2b7187fb9, 2085adc17, 3e3b1e8ef)"""
    kinds = (l[0], r[0])
    if "f" in kinds:
        d = l if l[0] == "d" else r
        if d[-1] is not None and (abs(d[3]) > (1 << 53) or d[2] > 22):
            return "compare-decimal-float64-double-rounding"
        return None
    meta = lambda o: (o[1], o[2]) if o[0] == "d" else ({8: 3, 16: 5, 32: 10, 64: 19}[INT_TYPES[o[1]][0]] if not (o[1] == "u64") else tb.get("u64_dec_precision") or 20, 0)
    (p1, s1), (p2, s2) = meta(l), meta(r)
    is64 = lambda o: o[0] == "i" and INT_TYPES[o[1]][0] == 64
    kd_max = 38 if (p1 > 18 or p2 > 18 or (tb.get("wide_dec128") == 1 and (is64(l) or is64(r)))) else 18
    if impl == "err" and spec != "err" and max(p1 - s1, p2 - s2) + max(s1, s2) > kd_max:
        return "decimal-compare-clamped-precision-error"
    return None


def stage_deccmp(rng, tier, mode, tb, gbin, gmodel, stats, known):
    quick = tier == "quick"
    pairs = [(("d",) + a, ("d",) + b) for a, b in DEC_CMP_PAIRS]
    if not quick:
        pairs += [(("d",) + a, ("d",) + b) for a in DEC_CMP_TYPES for b in DEC_CMP_TYPES if (a, b) not in DEC_CMP_PAIRS]
    ints = ["i8", "u8", "i32", "u32", "i64", "u64"] + ([] if quick else ["i16", "u16"])
    for dt in ([(10, 2), (18, 0), (20, 2)] if quick else [(10, 2), (18, 0), (18, 4), (20, 2), (38, 10), (4, 1)]):
        for it in ints:
            pairs += [(("d",) + dt, ("i", it)), (("i", it), ("d",) + dt)]
    for dt in ([(10, 2), (18, 4)] if quick else [(10, 2), (18, 4), (38, 10), (38, 30), (18, 18)]):
        pairs += [(("d",) + dt, ("f",)), (("f",), ("d",) + dt)]
    pairs.append((("d", 38, -100), ("d", 5, 2)))           # precision - scale beyond an i8
    head = "deccmp %d %d %d %s" % (1 if tb.get("decbind_i8") != 0 else 0, tb.get("u64_dec_precision") or 19, 1 if tb.get("wide_dec128") == 1 else 0, mode)
    plans, lines = [], []
    for (lk, rk) in pairs:
        nx = 1 if quick else 4
        lv = side_values(rng, lk, nx) if lk != ("d", 38, -100) else [("d", 38, -100, None)]
        rv = side_values(rng, rk, nx)
        if quick:
            trim = lambda vs: vs if len(vs) <= 11 else vs[:3] + rng.shuffle(vs[3:-4])[:4] + vs[-4:]
            lv, rv = trim(lv), trim(rv)
        plans.append((lk, rk, lv, rv))
        lines += ["%s %s %s" % (head, opnd_model(a), opnd_model(b)) for a in lv for b in rv]
    mout = common.run_model(gmodel, "numfn", lines, timeout=900)
    viol, cases, meta, pos = [], [], [], 0

    def lit(o):
        return sql_lit(opnd_type(o), opnd_cell(o)) if o[-1] is not None else "cast(NULL as %s)" % gen.tinfo(opnd_type(o))[0]

    for pi, (lk, rk, lv, rv) in enumerate(plans):
        res = {}
        for i, a in enumerate(lv):
            for j, b in enumerate(rv):
                res[(i, j)] = mout[pos].split(); pos += 1
        nl, nr = len(lv) - 1, len(rv) - 1           # index of the NULL operand of each side
        classes = set(f[0] for f in res.values())
        ta, tbt = opnd_type(lv[0]), opnd_type(rv[0])
        setup = lambda ls, rs: [gen.create_table("x", [("i", "i32"), ("a", ta)]), gen.create_table("y", [("j", "i32"), ("b", tbt)])] + \
            insert_rows("x", [("i", "i32"), ("a", ta)], [["I%d" % i, opnd_cell(lv[i])] for i in ls]) + \
            insert_rows("y", [("j", "i32"), ("b", tbt)], [["I%d" % j, opnd_cell(rv[j])] for j in rs])
        col_q = "select i, j, %s from x, y" % ", ".join("a %s b" % o for o in CMP8)
        if classes <= {"err", "panic"} and len(classes) == 1:
            # decided when the statement is planned: every pair has this outcome
            stmts = setup(range(len(lv)), range(len(rv))) + [col_q]
            cases.append({"id": "dcmp-%d-bind" % pi, "mode": "det", "partitions": 1, "stmts": stmts, "timeout_s": 60})
            meta.append(("bind", pi, lv, rv, res, stmts, None, None))
            continue
        bad_l = [i for i in range(len(lv)) if res[(i, nr)][0] in ("err", "panic")]
        bad_r = [j for j in range(len(rv)) if res[(nl, j)][0] in ("err", "panic")]
        good_l = [i for i in range(len(lv)) if i not in bad_l]
        good_r = [j for j in range(len(rv)) if j not in bad_r]
        leftover = [(i, j) for i in good_l for j in good_r if res[(i, j)][0] in ("err", "panic")]
        if leftover:
            viol.append({"kind": "model-shape", "what": "a failing pair whose sides do not fail on their own", "types": [ta, tbt]})
            continue
        stmts = setup(good_l, good_r)
        idx = {}
        stmts.append(col_q); idx["column"] = len(stmts) - 1
        stmts.append("select i, j, %s from x, y" % ", ".join("case when a %s b then 1 else 0 end" % o for o in CMP8)); idx["case"] = len(stmts) - 1
        for k, o in enumerate(CMP8):
            stmts.append("select i, j from x, y where a %s b" % o); idx["where%d" % k] = len(stmts) - 1
        stmts.append("select i, j from x join y on a = b"); idx["join"] = len(stmts) - 1
        litp = [(rng.choice(good_l), rng.choice(good_r)) for _ in range(6)] + [(i, j) for i in good_l for j in good_r if res[(i, j)][0] == "eq"][:3]
        stmts.append("select " + ", ".join("%s %s %s" % (lit(lv[i]), o, lit(rv[j])) for i, j in litp for o in CMP8)); idx["literal"] = len(stmts) - 1
        cases.append({"id": "dcmp-%d" % pi, "mode": "det", "partitions": 1, "stmts": stmts, "timeout_s": 120})
        meta.append(("rows", pi, lv, rv, res, stmts, idx, (good_l, good_r, litp)))
        # values whose own cast fails: one statement each, with a partner that is fine
        for side, bad in (("l", bad_l[:3]), ("r", bad_r[:3])):
            for k in bad:
                i, j = (k, (good_r or [nr])[0]) if side == "l" else ((good_l or [nl])[0], k)
                st = ["select %s = %s" % (lit(lv[i]), lit(rv[j]))]
                cases.append({"id": "dcmp-%d-%s%d" % (pi, side, k), "mode": "det", "partitions": 1, "stmts": st, "timeout_s": 30})
                meta.append(("one", pi, lv, rv, res, st, None, (i, j)))
    real = common.run_harness(gbin, "sql", cases, timeout=1800)

    def judge(lv, rv, res, i, j, eng8, ctx, sql):
        """eng8: the engine's eight answers as 1/0/N, or an outcome class"""
        impl, spec, impl8, spec8 = res[(i, j)]
        stats["evaluations"] += 1
        stats["distinct"].add(("deccmp", opnd_type(lv[i]), opnd_type(rv[j]), ctx, impl, spec))
        want = impl8 if impl8 != "-" else impl
        info = {"kind": "decimal-comparison", "types": [opnd_type(lv[i]), opnd_type(rv[j])], "args": [opnd_cell(lv[i]), opnd_cell(rv[j])], "context": ctx,
                "engine": eng8, "model": want, "definition": spec8 if spec8 != "-" else spec, "stmts": sql}
        if eng8 != want:
            info["what"] = "engine differs from the faithful model" + (" and from the definition" if eng8 != info["definition"] else " (model out of date)")
            viol.append(info)
            return
        if want == info["definition"]:
            return
        cls = deccmp_class(tb, lv[i], rv[j], impl, spec)
        if cls is None:
            info["what"] = "result differs from the order of the exact values"
            viol.append(info)
        else:
            k = known.setdefault(cls, {"count": 0, "example": dict(info, outcome=eng8)})
            k["count"] += 1

    def one_sql(lv, rv, i, j, op):
        return ["select %s %s %s" % (lit(lv[i]), op, lit(rv[j]))]

    for (kind, pi, lv, rv, res, stmts, idx, extra), r in zip(meta, real):
        if kind == "bind":
            o = case_stmt(r, -1, len(stmts))
            eng = o[0] if o[0] != "ok" else "ok"
            judge(lv, rv, res, 0, len(rv) - 1 if len(rv) > 1 else 0, eng, "column", stmts[-3:])
            continue
        if kind == "one":
            i, j = extra
            o = case_stmt(r, 0, 1)
            if o[0] == "ok":
                c = o[1][0][0]
                eng = {"B1": "eq-true", "B0": "eq-false", "N": "eq-null"}.get(c, c)
                # the model says this pair fails: a value means the model is out of date or the definition is met
                impl, spec, impl8, spec8 = res[(i, j)]
                viol.append({"kind": "decimal-comparison", "what": "the model predicts a failing cast, the engine returned a value", "args": [opnd_cell(lv[i]), opnd_cell(rv[j])],
                             "engine": eng, "model": impl, "definition": spec8, "stmts": stmts})
                stats["evaluations"] += 1
            else:
                judge(lv, rv, res, i, j, o[0], "literal", stmts)
            continue
        good_l, good_r, litp = extra
        outs = {k: case_stmt(r, v, len(stmts)) for k, v in idx.items()}
        failed = [k for k, o in outs.items() if o[0] != "ok"]
        if failed:
            k = failed[0]
            viol.append({"kind": "decimal-comparison-statement-failed", "types": [opnd_type(lv[0]), opnd_type(rv[0])], "context": k, "outcome": list(outs[k])[:2],
                         "stmts": stmts[:2] + ["..."] + [stmts[idx[k]]]})
            continue
        enc = lambda c: "1" if c in ("B1", "I1") else "0" if c in ("B0", "I0") else "N"
        seen = set()
        for row in outs["column"][1]:
            i, j = int(row[0][1:]), int(row[1][1:])
            seen.add((i, j))
            judge(lv, rv, res, i, j, "".join(enc(c) for c in row[2:]), "column", one_sql(lv, rv, i, j, "="))
        if seen != set((i, j) for i in good_l for j in good_r):
            viol.append({"kind": "decimal-comparison", "what": "cross join lost or invented rows", "types": [opnd_type(lv[0]), opnd_type(rv[0])]})
        for row in outs["case"][1]:
            i, j = int(row[0][1:]), int(row[1][1:])
            got = "".join(enc(c) for c in row[2:])
            want = res[(i, j)][2].replace("N", "0")
            stats["evaluations"] += 1
            if got != want:
                viol.append({"kind": "decimal-comparison", "what": "CASE WHEN a op b differs from the projected comparison", "args": [opnd_cell(lv[i]), opnd_cell(rv[j])],
                             "engine": got, "model": want, "stmts": ["select case when %s = %s then 1 else 0 end" % (lit(lv[i]), lit(rv[j]))]})
        for k, o in enumerate(CMP8):
            got = set((int(row[0][1:]), int(row[1][1:])) for row in outs["where%d" % k][1])
            exp = set((i, j) for i in good_l for j in good_r if res[(i, j)][2][k] == "1")
            stats["evaluations"] += len(good_l) * len(good_r)
            for (i, j) in sorted(got ^ exp)[:2]:
                viol.append({"kind": "decimal-comparison", "what": "WHERE a %s b keeps a different set of pairs than the projected comparison" % o,
                             "args": [opnd_cell(lv[i]), opnd_cell(rv[j])], "engine_keeps": (i, j) in got, "model_keeps": (i, j) in exp,
                             "stmts": ["select 1 where %s %s %s" % (lit(lv[i]), o, lit(rv[j]))]})
        got = sorted((int(row[0][1:]), int(row[1][1:])) for row in outs["join"][1])
        exp = sorted((i, j) for i in good_l for j in good_r if res[(i, j)][2][2] == "1")
        stats["evaluations"] += len(good_l) * len(good_r)
        if got != exp:
            d = (sorted(set(got) ^ set(exp)) or [(0, 0)])[0]
            viol.append({"kind": "decimal-comparison", "what": "equi-join on decimal keys of different types pairs other rows than a = b does",
                         "types": [opnd_type(lv[0]), opnd_type(rv[0])], "args": [opnd_cell(lv[d[0]]), opnd_cell(rv[d[1]])], "engine_pairs": len(got), "model_pairs": len(exp),
                         "stmts": stmts[:2] + ["..."] + [stmts[idx["join"]]]})
        cells = outs["literal"][1][0]
        for n, (i, j) in enumerate(litp):
            judge(lv, rv, res, i, j, "".join(enc(c) for c in cells[8 * n:8 * n + 8]), "literal", one_sql(lv, rv, i, j, "="))
    # ---- UNION ALL / VALUES / CASE over differently typed decimals: every value must survive; ORDER BY / GROUP BY over the union
    ucases, umeta = [], []
    for (a, b) in [((10, 2), (4, 1)), ((4, 1), (10, 2)), ((10, 2), (20, 0)), ((18, 0), (18, 18)), ((10, 0), (10, 2)), ((38, 10), (20, 2)), ((4, 2), (4, 2)),
                   ((2, 1), (3, 2))]:
        va = [v for v in dec_values(rng, a[0], a[1], 0)][:8]
        vb = [v for v in dec_values(rng, b[0], b[1], 0)][:8]
        ta, tbt = "dec(%d,%d)" % a, "dec(%d,%d)" % b
        la = [sql_lit(ta, "D%d/%d/%d" % (v, a[0], a[1])) for v in va]
        lb = [sql_lit(tbt, "D%d/%d/%d" % (v, b[0], b[1])) for v in vb]
        n = min(len(va), len(vb))
        stmts = [gen.create_table("x", [("a", ta)]), gen.create_table("y", [("b", tbt)]), gen.create_table("z", [("i", "i32"), ("a", ta), ("b", tbt)])] + \
            insert_rows("x", [("a", ta)], [["D%d/%d/%d" % (v, a[0], a[1])] for v in va]) + insert_rows("y", [("b", tbt)], [["D%d/%d/%d" % (v, b[0], b[1])] for v in vb]) + \
            insert_rows("z", [("i", "i32"), ("a", ta), ("b", tbt)], [["I%d" % i, "D%d/%d/%d" % (va[i], a[0], a[1]), "D%d/%d/%d" % (vb[i], b[0], b[1])] for i in range(n)]) + \
            ["select v from (select a as v from x union all select b from y) t order by v",
             "select v, count(*) from (select a as v from x union all select b from y) t group by v",
             "select v from (values %s) t(v)" % ", ".join("(%s)" % l for pair in zip(la, lb) for l in pair),
             "select i, case when i % 2 = 0 then a else b end, case when i % 2 = 1 then a when i = 0 then b else b end from z"]
        ucases.append({"id": "dunion-%d" % len(ucases), "mode": "det", "partitions": 1, "stmts": stmts, "timeout_s": 60})
        umeta.append((a, b, va, vb, n, stmts))
    frac = lambda cell: Fraction(int(cell[1:].split("/")[0])) / Fraction(10) ** int(cell[1:].split("/")[2])
    fa = lambda v, t: Fraction(v) / Fraction(10) ** t[1]

    def known_vc(d):
        # fixed by 57d9a50e4: a VALUES column / CASE result over two decimal types that loses a digit or fails is a violation
        viol.append(dict(d, what="VALUES / CASE over decimals of two types does not return the input values"))

    for (a, b, va, vb, n, stmts), r in zip(umeta, common.run_harness(gbin, "sql", ucases, timeout=300)):
        exp = sorted([fa(v, a) for v in va] + [fa(v, b) for v in vb])
        o1, o2, o3, o4 = [case_stmt(r, k, len(stmts)) for k in (-4, -3, -2, -1)]
        stats["evaluations"] += 4
        need = max(a[0] - a[1], b[0] - b[1]) + max(a[1], b[1])
        info = {"kind": "decimal-unification", "types": ["dec(%d,%d)" % a, "dec(%d,%d)" % b]}
        if need > 38:
            continue
        # UNION ALL (fixed: 2b1fb11f8): any lost digit is a violation
        if o1[0] != "ok" or o2[0] != "ok":
            viol.append(dict(info, what="UNION ALL of two decimal types failed although decimal(%d,%d) holds both" % (need, max(a[1], b[1])),
                             outcome=list(o1 if o1[0] != "ok" else o2)[:2], stmts=stmts[:2] + ["..."] + stmts[-4:-2]))
        else:
            got = [frac(row[0]) for row in o1[1]]
            grp = sorted((frac(row[0]), int(row[1][1:])) for row in o2[1])
            if got != exp or grp != sorted((v, exp.count(v)) for v in set(exp)):
                viol.append(dict(info, what="UNION ALL / ORDER BY / GROUP BY over decimals of two types does not return the input values",
                                 engine=[str(x) for x in got[:10]], definition=[str(x) for x in exp[:10]], stmts=stmts[:2] + ["..."] + stmts[-4:-2]))
        # VALUES
        expv = [x for i in range(n) for x in (fa(va[i], a), fa(vb[i], b))]
        d = dict(info, stmts=[stmts[-2]])
        if o3[0] != "ok":
            if o3[0] == "err" and "Failed cast decimal" in str(o3[1]):
                known_vc(dict(d, outcome=list(o3)[:2]))
            else:
                viol.append(dict(d, what="VALUES over two decimal types failed", outcome=list(o3)[:2]))
        elif [frac(row[0]) for row in o3[1]] != expv:
            got = [frac(row[0]) for row in o3[1]]
            if len(got) == len(expv):
                known_vc(dict(d, engine=[str(x) for x in got[:8]], definition=[str(x) for x in expv[:8]], outcome="values changed"))
            else:
                viol.append(dict(d, what="VALUES over two decimal types: wrong number of rows"))
        # CASE
        expc = {i: (fa(va[i], a) if i % 2 == 0 else fa(vb[i], b), fa(va[i], a) if i % 2 == 1 else fa(vb[i], b)) for i in range(n)}
        d = dict(info, stmts=stmts[:3] + ["..."] + [stmts[-1]])
        if o4[0] != "ok":
            if o4[0] == "err" and ("Failed cast decimal" in str(o4[1]) or "two different types" in str(o4[1])):
                known_vc(dict(d, outcome=list(o4)[:2]))
            else:
                viol.append(dict(d, what="CASE over two decimal types failed", outcome=list(o4)[:2]))
        else:
            gotc = {int(row[0][1:]): (frac(row[1]), frac(row[2])) for row in o4[1]}
            if gotc != expc:
                bad = [i for i in expc if gotc.get(i) != expc[i]][:1]
                if len(gotc) == len(expc):
                    known_vc(dict(d, engine=[str(x) for x in gotc.get(bad[0], ())], definition=[str(x) for x in expc[bad[0]]], outcome="values changed"))
                else:
                    viol.append(dict(d, what="CASE over two decimal types: wrong rows"))
    return viol


def stage_mixed_notes(gbin):
    """observations, not requirements: how a UNION of a signed and an unsigned 64-bit column is typed, what SUM / AVG over UInt64 return"""
    probes = {"union_bigint_ubigint": "select v from (select cast(5 as bigint) as v union all select cast(5 as ubigint)) t",
              "sum_ubigint": "select sum(a), avg(a) from (values (cast('9007199254740993' as ubigint)), (cast(0 as ubigint))) v(a)"}
    cases = [{"id": k, "mode": "det", "partitions": 1, "stmts": [q], "timeout_s": 30} for k, q in probes.items()]
    out = {}
    for c, r in zip(cases, common.run_harness(gbin, "sql", cases, timeout=120)):
        o = case_stmt(r, 0, 1)
        out[c["id"]] = {"sql": c["stmts"][0], "outcome": o[0], "detail": (str(o[1])[:120] if o[0] != "ok" else {"rows": o[1], "types": [t_[1] for t_ in o[2]]})}
    return out


def run(ctx):
    t0 = time.time()
    rng = common.Rng(ctx["seed"])
    tier = ctx["tier"]
    out = {"violations": [], "known": [], "assumptions": []}
    tb = tables_numfn.regenerate()
    tables_arith.regenerate()      # proofs/NumFnProofs.v builds on proofs/DecimalProofs.v, which reads gen/TablesArith.v
    missing_consts = [k for k, v in tb.items() if v is None]
    profiles = ("dev",) if tier == "quick" else ("dev", "relfast")
    bins = {pf: common.build_harness(profile=pf, bin="gverif")[0] for pf in profiles}
    pr = common.coq_props(PROPS)
    mine = [f for f in common.coq_sources() if any(f.endswith(x) for x in MINE)]
    audit = common.audit_sources(mine)
    obligations = pr["declared"]
    bad_assum = common.check_assumptions(pr) if pr["ok"] else []
    proof_broken = (not pr["ok"]) or bool(bad_assum) or bool(audit) or bool(missing_consts)
    discharged = 0 if proof_broken else len(obligations)
    gmodel = common.build_ocaml("numfn")
    stats = {"evaluations": 0, "distinct": set(), "batch_statements": 0}
    viol, known, per_profile = [], {}, {}
    for profile in profiles:
        prng = common.Rng(ctx["seed"] * 7919 + (1 if profile == "dev" else 2))
        mode = PROFILE_MODE[profile]
        jobs = bin_jobs(prng, tier, mode, tb) + round_jobs(prng, tier, mode, tb) + float_jobs(prng, tier)
        if profile != "dev":
            # release adds only what depends on overflow checks: gcd / lcm / round
            jobs = [j for j in jobs if j.fn in ("gcd", "lcm") or j.kind == "round"]
        v1, k1 = run_jobs(jobs, profile, bins[profile], gmodel, prng, tier, stats)
        viol += v1
        for fid, d in k1.items():
            e = known.setdefault(fid, {"count": 0, "example": d["example"]})
            e["count"] += d["count"]
        per_profile[profile] = {"jobs": len(jobs), "tuples": sum(len(j.tuples or []) for j in jobs)}
    viol += stage_cmp(rng, tier, bins["dev"], gmodel, stats)
    viol += stage_deccmp(rng, tier, "d", tb, bins["dev"], gmodel, stats, known)
    notes = stage_mixed_notes(bins["dev"])
    listed = {e["id"]: e for e in common.known_findings()["known"] if e.get("property") == PID}
    for fid in sorted(known):
        d = known[fid]
        if fid in listed:
            ex = d["example"]
            out["known"].append("%s: %s [%d cases; e.g. %s -> engine %s, definition %s]" % (
                fid, listed[fid]["what"], d["count"], json.dumps(ex.get("stmts", [])[-1:])[:200], ex.get("engine", ex.get("outcome")), ex.get("definition", "error")))
        else:
            out["violations"].append({"what": "deviation in class %s, which is not listed in findings/C05num.json" % fid,
                                      "replay": d["example"], "no_input": False})
    per_kind = {}
    for v in viol:
        kk = (v["kind"], v.get("function"), v.get("context"))
        per_kind[kk] = per_kind.get(kk, 0) + 1
        if per_kind[kk] <= 2 and len(out["violations"]) < 60:
            out["violations"].append({"what": "%s: %s" % (v["kind"], v.get("what", v.get("function", ""))), "replay": v, "no_input": False})
    if proof_broken and not out["violations"]:
        out["violations"].append({"what": "theorem(s) in %s no longer check and the correspondence runs found no failing input" % PROPS,
                                  "no_input": True, "replay": {"failed_at": pr.get("failed_at"), "log_tail": pr["log"][-1500:] if not pr["ok"] else "",
                                                               "assumption_problems": bad_assum, "audit": audit,
                                                               "source_matches_no_transcribed_variant": missing_consts, "tables": tb}})
    out["coverage"] = {
        "obligations": len(obligations), "discharged": discharged,
        "checker_cmd": "cd coq && make props/C05num.vo (Print Assumptions parsed; forbidden-construct audit over the numfn files)",
        "trusted_base": ["Coq 8.16.1 kernel (vm_compute in closed witness lemmas only)",
                         "hand transcription of numeric/{gcd,lcm,factorial,round,abs,sign,ceil,floor,trunc}.rs, binary/{bitand,bitor,xor,bitnot,shl,shr}.rs, "
                         "cast/builtin/to_decimal.rs DecimalToDecimal, to_primitive.rs DecimalToFloat into model/NumFn.v, tied to the engine by the SQL correspondence",
                         "Rust semantics taken as documented: checked_shl/shr, `as u32`, `<<`/`>>` on integers, iN::abs via num_traits Signed, native / % *, checked_mul/add/div/pow, `as f64`, f64 division, ceil/floor/round",
                         "model/Decimal.v round_q_f64 / int_as_f64 (binary64 rounding, shared with C12)",
                         "extraction (ExtrOcamlBasic only) + ocaml/numfn.ml parsing/printing", "harness/src/sql.rs (gverif sql, det mode; dev = overflow checks on, relfast = off)"],
        "theorems": obligations,
        "evaluations": stats["evaluations"], "distinct_nontrivial": len(stats["distinct"]),
        "rule": "every (function, type, argument tuple, context) is evaluated by the engine through SQL and by the extracted transcription and definition; "
                "engine == transcription is required always and in every context (constant-folded literal, column, under a WHERE selection, inside a CASE "
                "branch whose condition excludes the tuples the transcription says fail); transcription != definition must fall in a class of "
                "findings/C05num.json. gcd lcm & | xor: all 65 536 Int8 pairs (and UInt8 for the bitwise ones) built in the engine; << >> ~: all 256 "
                "values x boundary counts; 16/32/64-bit and unsigned types: boundary-biased pairs; factorial -3..40 and the Int64 limits; round over a "
                "(p,s) grid x digit counts incl. negative, >= s, +-128, i64 limits; abs sign ceil floor trunc round over all integer types and a decimal "
                "grid, results compared by Float64 bit pattern; the six comparisons between operands of any two of the eight integer types over boundary pools (MIN, 2^53+-1, 2^63-1, 2^63, 2^64-1, ...) against the comparison of the integers (extracted spec_cmp; no transcription of the implicit casts): projected, inside CASE, as WHERE predicate, constant-folded, as key of an inner and a left equi-join; per type ORDER BY / GROUP BY / min / max. Comparisons with a decimal operand (decimal ~ decimal over a (p,s) grid incl. equal scales, either scale larger, scale 0 and negative, maximum precision, the Decimal64/128 boundary, clamped common precision; decimal ~ integer of every width; decimal ~ Float64; both operand orders; values equal after rescaling, differing in the last digit, negatives, zero, NULL): the six operators and IS [NOT] DISTINCT FROM projected, inside CASE, as WHERE predicate, constant-folded and as equi-join key against the extracted transcription of decimal_bind and the binder's resolution (must agree always) and against the order of the exact values (deviations must fall in a listed class); UNION ALL of two decimal types must keep every value (ORDER BY / GROUP BY over it, expectation by exact rational arithmetic in the check). distinct = distinct (function, type, context, model class, definition class, profile).",
        "samples": [known[k]["example"] for k in sorted(known)][:4],
        "profiles": per_profile, "batch_statements": stats["batch_statements"],
        "known_classes_reproduced": {k: v["count"] for k, v in known.items()},
        "known_classes_not_reproduced": sorted(fid for fid in listed if fid not in known),
        "source_variants": tb, "mixed_type_observations": notes, "exhaustive": False,
    }
    out["assumptions"] = ["Int128/UInt128 have no SQL spelling: the 128-bit instances of the theorems are proofs only (factorial's Int128 result and Decimal128 exercise i128)",
                          "text -> integer/decimal casts deliver the intended operands (operands are read back as row keys in the exhaustive statements)",
                          "mixed-width operands (implicit casts to a common type) belong to the typing property, not to this check",
                          "float-only functions (sin, ln, power, sqrt, ...) are Rust std and out of scope"]
    out["wall"] = time.time() - t0
    return out
