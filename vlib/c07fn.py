"""C07fn — every aggregate function's partial state is a homomorphism over input splits (part of C07; the
SUM / AVG parts also serve C12).

Proof side: coq/model/AggFn.v (update / merge / finalize of every builtin aggregate, transcribed; specs on the
whole input), coq/proofs/AggFnProofs.v, coq/props/C07fn.v.
Correspondence, two levels:
  state level  harness/src/bin/gv_aggfn.rs drives the REAL state functions (new state / update / combine /
               finalize through the planned function's vtable) over generated chunks and merge plans; the
               extracted model (ocaml/aggfn.ml) runs the same plan and the specification of the flattened rows
  SQL level    tables built by several INSERT statements, `SET partitions TO k` for k in 1,2,3,4,8, grouped
               and ungrouped, plain and DISTINCT calls; every cell is compared with the specification.
Integers / decimals / booleans / strings must agree exactly; Float64 results must agree with the exact
rational result within a stated, input-dependent tolerance (see `tol_*`)."""
import json, math, struct, time
from fractions import Fraction
from . import common, gen

PID = "C07fn"
PROPS = "props/C07fn.v"

EPS_REL = Fraction(1, 10 ** 9)          # relative tolerance on the exact value
EPS_COND = Fraction(1, 10 ** 12)        # factor on the conditioning bound (n <= ~40 rows, eps = 2.2e-16)


# ---------------------------------------------------------------- cells
def fcell(x):
    return "F%x" % struct.unpack("<Q", struct.pack("<d", float(x)))[0]


def cell_float(c):
    return struct.unpack("<d", struct.pack("<Q", int(c[1:], 16)))[0]


def cell_frac(c):
    """exact rational value of a cell used as a number (floats: exact binary value; ints; decimals: unscaled)"""
    if c[0] == "F":
        return Fraction(cell_float(c))
    if c[0] == "I":
        return Fraction(int(c[1:]))
    if c[0] == "D":
        return Fraction(int(c[1:].split("/")[0]))
    raise ValueError(c)


def hexs(s):
    return s.encode("utf-8").hex()


def model_item(kind, c):
    """harness cell -> model item (ocaml/aggfn.ml)"""
    if kind == "pair":
        return "(P %s %s)" % (model_item("f", c[0]), model_item("f", c[1]))
    if c == "N":
        return "N"
    if kind == "f":
        fr = Fraction(cell_float(c))
        return "Q%d/%d" % (fr.numerator, fr.denominator)
    if kind in ("i", "any"):
        if c[0] == "I":
            return c
        if c[0] == "D":
            return "I" + c[1:].split("/")[0]
        if c[0] == "S":
            return "X" + hexs(c[1:])
        if c[0] == "F":
            return "I1"
        return c
    if kind == "b":
        return c
    if kind == "s":
        return "X" + hexs(c[1:])
    raise ValueError(kind)


def is_null_row(kind, c):
    if kind == "pair":
        return c[0] == "N" or c[1] == "N"
    return c == "N"


# ---------------------------------------------------------------- function table
# (engine name, model name builder, item kind, result kind, allowed input types)
INT_T = ["i8", "i16", "i32", "i64"]
UINT_T = ["u8", "u16", "u32", "u64"]
DEC_T = ["dec64(10,2)", "dec64(18,0)", "dec64(18,6)", "dec64(9,4)", "dec128(38,0)", "dec128(38,10)", "dec128(20,5)",
         "dec128(30,2)"]


def dec_ps(t):
    p, s = t[t.index("(") + 1:-1].split(",")
    return int(p), int(s)


def model_name(fn, types):
    t = types[0]
    if fn == "sum":
        return "sum_f" if t == "f64" else ("sum_i128" if t.startswith("dec") else ("sum_u64" if t == "u64" else "sum_i64"))
    if fn == "avg":
        return "avg_f" if t == "f64" else ("avg_dec:%d" % dec_ps(t)[1] if t.startswith("dec") else
                                           ("avg_u64" if t == "u64" else "avg_i"))
    if fn == "first":
        return "first_s" if t == "utf8" else "first_i"
    if fn == "stddev":
        return "stddev_samp"
    if fn == "every":
        return "bool_and"
    return fn


FLOAT1 = ["var_pop", "var_samp", "stddev_pop", "stddev_samp", "stddev"]
FLOAT2 = ["covar_pop", "covar_samp", "corr", "regr_r2", "regr_slope", "regr_avgx", "regr_avgy", "regr_count"]


def item_kind(fn, types):
    if fn in FLOAT2:
        return "pair"
    if fn == "count":
        return "any"
    if fn in ("bool_and", "bool_or", "every"):
        return "b"
    if fn == "string_agg" or (fn == "first" and types[0] == "utf8"):
        return "s"
    if types[0] == "f64":
        return "f"
    return "i"


# ---------------------------------------------------------------- generators
SMALL_Q = [Fraction(k, 4) for k in range(-40, 41)]


def gen_float_vals(rng, flavour, n, dyadic=False):
    """dyadic: small multiples of 1/4 only (every intermediate of the engine's f64 arithmetic is then exact or
    harmlessly rounded; used for corr / regr_slope / regr_r2 whose NULL-on-zero-variance rule and ratio of second
    moments have no input-independent rounding bound)"""
    if dyadic and flavour in ("bigsmall", "decimalish"):
        flavour = "mixed"
    big = Fraction(rng.choice([2 ** 30, 2 ** 30 + 2 ** 10, 10 ** 9, -(2 ** 30)]))
    if flavour == "zeros":
        return [Fraction(0)] * n
    if flavour == "cancel":
        out = []
        while len(out) < n:
            v = rng.choice(SMALL_Q)
            out += [v, -v]
        return out[:max(2, n - n % 2)]
    if flavour == "equal":
        v = rng.choice(SMALL_Q if dyadic else SMALL_Q + [big, Fraction(1, 10)])
        return [Fraction(float(v))] * n
    if flavour == "bigsmall":
        return [big + rng.choice([0, 1, 2, 3, Fraction(1, 2), -1]) if rng.chance(70) else rng.choice(SMALL_Q) for _ in range(n)]
    if flavour == "neg":
        return [-abs(rng.choice(SMALL_Q)) - 1 for _ in range(n)]
    if flavour == "ints":
        return [Fraction(rng.below(21) - 10) for _ in range(n)]
    if flavour == "decimalish":
        return [Fraction(float(Fraction(rng.below(2001) - 1000, 100))) for _ in range(n)]
    return [rng.choice(SMALL_Q) for _ in range(n)]


FLOAT_FLAVOURS = ["zeros", "cancel", "equal", "bigsmall", "neg", "ints", "mixed", "mixed", "ints", "decimalish"]
CHUNK_SHAPES = ["empty", "allnull", "single", "plain", "plain", "plain", "withnulls"]


def int_range(t):
    if t.startswith("dec"):
        p, _ = dec_ps(t)
        return -(10 ** p) + 1, 10 ** p - 1
    bits = int(t[1:])
    return (-(1 << (bits - 1)), (1 << (bits - 1)) - 1) if t[0] == "i" else (0, (1 << bits) - 1)


def gen_int_vals(rng, flavour, n, t, extremes):
    lo, hi = int_range(t)
    clamp = lambda v: max(lo, min(hi, v))
    if flavour == "zeros":
        return [0] * n
    if flavour == "cancel":
        out = []
        while len(out) < n:
            v = clamp(rng.below(200))
            out += [v, clamp(-v)]
        return out[:max(2, n - n % 2)]
    if flavour == "equal":
        v = clamp(rng.choice([7, -3, 0, hi // 3, lo // 3]))
        return [v] * n
    if flavour == "bigsmall" and t == "u64":
        # SUM / AVG(UInt64) (a40c65193): beyond f64's 53 bits, beyond i64, the maximum; sums beyond 2^64
        return [rng.choice(U64_BOUNDARY) for _ in range(n)]
    if flavour == "bigsmall":
        pool = [hi // 2, hi // 2 + 1, lo // 2, 1, -1, 2, 0] + ([hi, lo, hi - 1, lo + 1] if extremes else [])
        return [clamp(rng.choice(pool)) for _ in range(n)]
    if flavour == "neg":
        return [clamp(-1 - rng.below(100)) for _ in range(n)]
    return [clamp(rng.below(2001) - 1000) for _ in range(n)]


U64_BOUNDARY = [2 ** 53 - 1, 2 ** 53, 2 ** 53 + 1, 2 ** 63 - 1, 2 ** 63, 2 ** 63 + 1, 2 ** 64 - 1, 2 ** 64 - 2, 0, 1]


def int_cell(t, v):
    if t.startswith("dec"):
        p, s = dec_ps(t)
        return "D%d/%d/%d" % (v, p, s)
    return "I%d" % v


STR_POOL = ["a", "b", "ab", "", "zz", "é", "x y", "a", "Q", "0", "日本", "b"]


def shape_rows(rng, shape, vals_fn, null):
    """turn a chunk shape into a list of rows; vals_fn(n) -> n non-null rows"""
    if shape == "empty":
        return []
    if shape == "allnull":
        return [null] * (1 + rng.below(3))
    if shape == "single":
        return vals_fn(1)[:1]
    n = 1 + rng.below(5)
    rows = vals_fn(n)
    if shape == "withnulls":
        out = []
        for r in rows:
            if rng.chance(30):
                out.append(null)
            out.append(r)
        rows = out
    return rows


def gen_chunks(rng, fn, types, tiny):
    """chunks of harness rows for one state-level case.  tiny: the case has 0, 1 or 2 non-NULL rows overall."""
    kind = item_kind(fn, types)
    t = types[0]
    nchunks = 1 + rng.below(5)
    extremes = fn in ("min", "max", "bit_and", "bit_or", "first", "count") or rng.chance(15) or t == "u64"

    def vals(n):
        if kind == "pair":
            fx, fy = rng.choice(FLOAT_FLAVOURS), rng.choice(FLOAT_FLAVOURS)
            if fn in ("corr", "regr_r2", "regr_slope"):
                # well-conditioned data only (the tolerance of a ratio of second moments is not input-bounded)
                fx = rng.choice(["ints", "mixed", "equal", "cancel", "zeros", "neg"])
                fy = rng.choice(["ints", "mixed", "equal", "cancel", "neg"])
            wc = fn in ("corr", "regr_r2", "regr_slope")
            xs = gen_float_vals(rng, fx, n, dyadic=wc)
            ys = gen_float_vals(rng, fy, n, dyadic=wc)
            m = min(len(xs), len(ys))
            rows = []
            for y, x in zip(ys[:m], xs[:m]):
                yc = "N" if rng.chance(8) else fcell(y)
                xc = "N" if rng.chance(8) else fcell(x)
                rows.append([yc, xc])
            return rows
        if kind == "f":
            return [fcell(v) for v in gen_float_vals(rng, rng.choice(FLOAT_FLAVOURS), n)]
        if kind == "b":
            fl = rng.choice(["t", "f", "mix"])
            return ["B1" if (fl == "t" or (fl == "mix" and rng.chance(60))) else "B0" for _ in range(n)]
        if kind == "s":
            return ["S" + rng.choice(STR_POOL) for _ in range(n)]
        if kind == "any":
            if t == "utf8":
                return ["S" + rng.choice(STR_POOL) for _ in range(n)]
            if t == "f64":
                return [fcell(v) for v in gen_float_vals(rng, "mixed", n)]
        fl = rng.choice(["zeros", "cancel", "equal", "bigsmall", "neg", "mixed", "mixed"])
        return [int_cell(t, v) for v in gen_int_vals(rng, fl, n, t, extremes)]

    null = ["N", "N"] if kind == "pair" else "N"
    chunks = [shape_rows(rng, rng.choice(CHUNK_SHAPES), vals, null) for _ in range(nchunks)]
    if tiny is not None:
        # keep only `tiny` non-NULL rows overall (n = 0, 1, 2: NULL / zero-variance / sample-statistics edge)
        left = tiny
        for ch in chunks:
            for i, r in enumerate(ch):
                if not is_null_row(kind, r):
                    if left > 0:
                        left -= 1
                    else:
                        ch[i] = null
        while left > 0:
            chunks[rng.below(len(chunks))].append(vals(1)[0])
            left -= 1
        chunks = [[r for r in ch if not (is_null_row(kind, r) and rng.chance(50))] for ch in chunks]
    return chunks


def gen_plan(rng, idxs):
    if len(idxs) == 1:
        return idxs[0]
    if rng.chance(25):
        return ["more", gen_plan(rng, idxs[:-1]), idxs[-1]]
    k = 1 + rng.below(len(idxs) - 1)
    return ["node", gen_plan(rng, idxs[:k]), gen_plan(rng, idxs[k:])]


def plan_leaves(plan):
    if isinstance(plan, int):
        return [plan]
    return plan_leaves(plan[1]) + plan_leaves(plan[2])


def plan_sexp(plan, chunks, kind):
    items = lambda i: " ".join(model_item(kind, r) for r in chunks[i])
    if isinstance(plan, int):
        return "(leaf %s)" % items(plan)
    if plan[0] == "node":
        return "(node %s %s)" % (plan_sexp(plan[1], chunks, kind), plan_sexp(plan[2], chunks, kind))
    return "(more %s %s)" % (plan_sexp(plan[1], chunks, kind), items(plan[2]))


STATE_FUNCS = (
    [("count", [t]) for t in ("utf8", "i64", "f64")] +
    [("sum", [t]) for t in INT_T + DEC_T + ["f64", "f64", "u64", "u64", "u64"]] +
    [("avg", [t]) for t in ["i64", "f64", "f64", "u64", "u64", "u64"] + DEC_T] +
    [(f, ["f64"]) for f in FLOAT1 for _ in range(3)] +
    [(f, ["f64", "f64"]) for f in FLOAT2 for _ in range(2)] +
    [(f, [t]) for f in ("min", "max", "bit_and", "bit_or") for t in INT_T + UINT_T] +
    [("min", [t]) for t in DEC_T[:2]] + [("max", [t]) for t in DEC_T[4:6]] +
    [("first", [t]) for t in ("i32", "i64", "utf8", "utf8")] +
    [("bool_and", ["bool"]), ("bool_or", ["bool"]), ("bool_and", ["bool"]), ("bool_or", ["bool"])] +
    [("string_agg", ["utf8", "utf8"])] * 3
)

# deterministic cases for the listed findings (always part of the run)
A38 = 10 ** 38 - 1
FIXED_STATE = [
    ("avg", ["dec128(38,0)"], [["D%d/38/0" % A38, "D%d/38/0" % A38, "D%d/38/0" % -A38]], 0),
    ("avg", ["dec128(38,0)"], [["D%d/38/0" % A38], ["D%d/38/0" % A38, "D%d/38/0" % -A38]], ["node", 0, 1]),
    ("avg", ["dec64(5,-2)"], [["D12/5/-2"], ["D34/5/-2"]], ["node", 0, 1]),
    ("sum", ["i64"], [["I%d" % (2 ** 63 - 1), "I1", "I-1"]], 0),
    ("sum", ["i64"], [["I%d" % (2 ** 63 - 1)], ["I1", "I-1"]], ["node", 0, 1]),
    ("sum", ["dec64(5,-2)"], [["D12/5/-2"], ["D34/5/-2"]], ["node", 0, 1]),
    # SUM / AVG(UInt64): 2^53 +- 1, 2^63, 2^64 - 1, totals beyond 2^64
    ("sum", ["u64"], [["I%d" % (2 ** 53 + 1)]], 0),
    ("sum", ["u64"], [["I%d" % (2 ** 53 + 1), "I%d" % (2 ** 53 - 1)], ["I%d" % 2 ** 63], ["N", "I%d" % (2 ** 64 - 1)]],
     ["node", ["node", 0, 1], 2]),
    ("sum", ["u64"], [["I%d" % (2 ** 64 - 1)] * 4, ["I%d" % (2 ** 64 - 1)] * 3, ["I1"]], ["more", ["node", 1, 0], 2]),
    ("avg", ["u64"], [["I%d" % (2 ** 53 + 1)]], 0),
    ("avg", ["u64"], [["I%d" % (2 ** 64 - 1)] * 4, ["I%d" % (2 ** 64 - 1)] * 3, ["I1"]], ["more", ["node", 1, 0], 2]),
    ("avg", ["u64"], [["I%d" % 2 ** 63, "I%d" % (2 ** 63 + 2)], ["I%d" % (2 ** 53 - 1), "N"]], ["node", 0, 1]),
] + [
    # x constant 0.1 over four partial states: NULL sequentially, garbage after merges
    (f, ["f64", "f64"], [[[fcell(1.0), fcell(0.1)], [fcell(2.0), fcell(0.1)], [fcell(4.0), fcell(0.1)]],
                         [[fcell(3.0), fcell(0.1)]], [[fcell(7.0), fcell(0.1)], [fcell(5.0), fcell(0.1)]],
                         [[fcell(9.0), fcell(0.1)]]], pl)
    for f in ("regr_slope", "corr", "regr_r2") for pl in (["node", ["node", ["node", 0, 1], 2], 3],)
] + [
    ("regr_slope", ["f64", "f64"], [[[fcell(y), fcell(0.1)] for y in (1.0, 2.0, 4.0, 3.0, 7.0, 5.0, 9.0)]], 0),
    ("var_pop", ["f64"], [[fcell(0.1)] * 3, [fcell(0.1)], [fcell(0.1)] * 2, [fcell(0.1)]], ["node", ["node", ["node", 0, 1], 2], 3]),
]


FIXED_SQL = [
    (["select avg(x) from (values (cast(1200 as decimal(5,-2))), (cast(3400 as decimal(5,-2)))) v(x)"],
     "avg", ["dec64(5,-2)"], ["D12/5/-2", "D34/5/-2"], "(avg_dec:-2 (leaf I12 I34))"),
    (["select avg(x) from (values (cast('12.50' as decimal(6,2))), (cast('0.25' as decimal(6,2)))) v(x)"],
     "avg", ["dec64(6,2)"], ["D1250/6/2", "D25/6/2"], "(avg_dec:2 (leaf I1250 I25))"),
]


def const_sql_cases():
    """REQUIRED cases (regression of 2ad5a541a): one argument constant and non-dyadic in every row, the table
    built by several INSERTs, partitions 1..8, deterministic and threaded: corr / regr_slope / regr_r2 must be
    NULL and the variances / covariance of the constant column exactly 0 for EVERY partition count"""
    cases = []
    ys = [1.0, 2.0, 4.0, 3.0, 7.0, 5.0, 9.0, 8.0, 6.0, 0.5, 1.5, 2.5]
    n = 0
    for xv in ("0.1", "0.3", "1.1", "0.7", "1000000000.1"):
        for split in ([3, 1, 2, 1], [3, 3, 3, 3], [1, 2, 3, 4, 2], [5, 1, 1, 1, 1, 1, 1, 1]):
            stmts = ["create temp table t (y double, x double)"]
            k = 0
            for m in split:
                stmts.append("insert into t values " + ", ".join("(%r, %s)" % (ys[(k + j) % 12], xv) for j in range(m)))
                k += m
            qpos = []
            for parts in range(1, 9):
                stmts += ["set partitions to %d" % parts,
                          "select regr_slope(y, x), corr(y, x), regr_r2(y, x), corr(x, y), regr_r2(x, y), var_pop(x), "
                          "var_samp(x), stddev_pop(x), stddev_samp(x), covar_pop(y, x), covar_samp(y, x), regr_count(y, x) from t"]
                qpos.append((parts, len(stmts) - 1))
            for mode in ("det", "threaded"):
                c = {"id": "k%d" % n, "mode": mode, "threads": 4, "stmts": stmts, "timeout_s": 60}
                if mode == "det":
                    c["partitions"] = 2
                    c["sched"] = {"kind": ["fifo", "lifo", "random"][n % 3], "seed": 1 + n}
                cases.append((c, qpos, sum(split)))
                n += 1
    return cases


CONST_WANT = ["N", "N", "N", "N", "N", "0", "0", "0", "0", "0", "0"]


def stage_const(gverif):
    cases = const_sql_cases()
    real = common.run_harness(gverif, "sql", [c for c, _, _ in cases], timeout=1200)
    viol, nq = [], 0
    for (c, qpos, nrows), r in zip(cases, real):
        res = r.get("results") or []
        for parts, p in qpos:
            nq += 1
            replay = {"stmts": [x for x in c["stmts"][:p + 1] if not x.startswith("select") and
                                not (x.startswith("set") and x != c["stmts"][p - 1])] + [c["stmts"][p]],
                      "config": {k: v for k, v in c.items() if k in ("mode", "threads", "sched")}}
            e = res[p] if p < len(res) else {"missing": True}
            if not e.get("ok") or len(e.get("rows", [])) != 1:
                viol.append({"what": "SQL level (required constant-column case): query failed: %s" % json.dumps(e)[:200],
                             "replay": replay, "no_input": False})
                continue
            row = e["rows"][0]
            bad = []
            for cell, want in zip(row[:11], CONST_WANT):
                if want == "N":
                    ok = cell == "N"
                else:
                    ok = cell[0] == "F" and cell_float(cell) == 0.0
                if not ok:
                    bad.append(cell)
            if row[11] != "I%d" % nrows:
                bad.append(row[11])
            if bad:
                viol.append({"what": "SQL level (required constant-column case): x constant, partitions=%d: got %s, "
                                     "want NULL for corr/regr_slope/regr_r2 and exactly 0 for the (co)variances" % (parts, row),
                             "replay": replay, "no_input": False})
    return {"queries": nq, "violations": viol}


def make_state_cases(rng, tier):
    reps = 16 if tier == "quick" else 150
    cases = []
    n = 0
    for (fn, types, chunks, plan) in FIXED_STATE:
        cases.append({"id": "s%d" % n, "fn": fn, "types": types, "chunks": chunks, "plan": plan, "fixed": True})
        n += 1
    for rep in range(reps):
        for fn, types in STATE_FUNCS:
            tiny = rng.choice([None, None, None, None, 0, 1, 2, 2])
            chunks = gen_chunks(rng, fn, types, tiny)
            idxs = rng.shuffle(list(range(len(chunks))))
            plan = gen_plan(rng, idxs)
            c = {"id": "s%d" % n, "fn": fn, "types": types, "chunks": chunks, "plan": plan}
            if fn == "string_agg":
                c["sep"] = rng.choice([",", "", "--", ", "])
            cases.append(c)
            n += 1
            # the sequential run over the same rows in plan order (one chunk, one state)
            flat = [r for i in plan_leaves(plan) for r in chunks[i]]
            c2 = dict(c, id="s%d" % n, chunks=[flat], plan=0, flat_of=c["id"])
            cases.append(c2)
            n += 1
    return cases


# ---------------------------------------------------------------- comparison
def parse_model_value(s):
    """model value text -> ("N",) | ("I", int) | ("B", bool) | ("X", hex) | ("Q", Fraction) | ("SQRT", Fraction)
       | ("CORR"/"CORRSQ", c, vx, vy) | ("NONFINITE",)"""
    p = s.split()
    if p[0] in ("N", "NONFINITE"):
        return (p[0],)
    if p[0][0] == "I" and len(p) == 1:
        return ("I", int(p[0][1:]))
    if p[0] in ("B0", "B1"):
        return ("B", p[0] == "B1")
    if p[0][0] == "X" and len(p) == 1:
        return ("X", p[0][1:])
    if p[0] in ("Q", "SQRT"):
        return (p[0], Fraction(int(p[1]), int(p[2])))
    if p[0] in ("CORR", "CORRSQ"):
        v = [Fraction(int(p[i]), int(p[i + 1])) for i in (1, 3, 5)]
        return (p[0], v[0], v[1], v[2])
    raise ValueError(s)


def cond_bound(fn, rows, kind):
    """input-dependent bound on the accumulated rounding error of the engine's f64 arithmetic, as an exact
    rational (see the derivation in the module doc of the hand-back): n rows, M = max |x|, spread = max - min"""
    if kind == "pair":
        ys = [Fraction(cell_float(r[0])) for r in rows if not is_null_row(kind, r)]
        xs = [Fraction(cell_float(r[1])) for r in rows if not is_null_row(kind, r)]
    else:
        xs = [cell_frac(r) for r in rows if r != "N"]
        ys = xs
    if not xs:
        return Fraction(0)
    n = len(xs)
    mx, my = max(abs(v) for v in xs), max(abs(v) for v in ys)
    sx, sy = max(xs) - min(xs), max(ys) - min(ys)
    if fn == "sum":
        return sum(abs(v) for v in xs)
    if fn == "avg" and (not rows or (rows[0] if kind != "pair" else "F")[0] != "F") and \
            all(r == "N" or r[0] != "F" for r in rows):
        return Fraction(0)      # integer / decimal AVG: exact integer accumulator, two roundings at the end
    if fn in ("avg", "regr_avgx"):
        return sum(abs(v) for v in xs) / n
    if fn == "regr_avgy":
        return sum(abs(v) for v in ys) / n
    if fn in FLOAT1:
        return 4 * n * (sx * mx + sx * sx)
    if fn in ("covar_pop", "covar_samp"):
        return 4 * n * (sx * my + sy * mx + sx * sy)
    return Fraction(1)          # corr / regr_r2 / regr_slope: well-conditioned generators, |result| scale 1


def float_close(fn, got, want, bound):
    """got: python float from the engine; want: parsed model value"""
    if got != got or got in (float("inf"), float("-inf")):
        return False
    g = Fraction(got)
    tol = EPS_COND * bound
    if want[0] == "Q":
        w = want[1]
        return abs(g - w) <= EPS_REL * abs(w) + tol
    if want[0] == "SQRT":
        # compare at the level of the variance: got^2 vs v
        if got < 0:
            return False
        v = want[1]
        if v < 0:
            return False
        return abs(g * g - v) <= 4 * EPS_REL * abs(v) + 2 * tol
    if want[0] in ("CORR", "CORRSQ"):
        c, vx, vy = want[1], want[2], want[3]
        if vx <= 0 or vy <= 0:
            return False
        w = float(c) / (math.sqrt(float(vx)) * math.sqrt(float(vy)))
        if want[0] == "CORRSQ":
            w = w * w
        return abs(got - w) <= 1e-9 * max(1.0, abs(w))
    return False


def exact_float(got, want):
    """the engine's float is the correctly rounded exact result (only for rational results)"""
    return want[0] == "Q" and float(want[1]) == got


def compare(fn, types, engine_out, want, rows, kind, sorted_pieces=None):
    """engine_out: 'ok <cell>' | 'err ..' | 'panic ..';  want: ('ok', value) | ('err',) | ('panic',) | ('nonfinite',)
       returns (agree: bool, exact: bool)"""
    if want[0] != "ok":
        return (engine_out.split(" ")[0] == want[0], False)
    if not engine_out.startswith("ok "):
        return (False, False)
    cell = engine_out[3:]
    v = want[1]
    if v[0] == "N":
        return (cell == "N", False)
    if cell == "N":
        return (False, False)
    if v[0] == "I":
        if cell[0] == "I":
            return (int(cell[1:]) == v[1], False)
        if cell[0] == "D":
            return (int(cell[1:].split("/")[0]) == v[1], False)
        return (False, False)
    if v[0] == "B":
        return (cell == ("B1" if v[1] else "B0"), False)
    if v[0] == "X":
        return (cell[0] == "S" and hexs(cell[1:]) == v[1], False)
    if cell[0] != "F":
        return (False, False)
    got = cell_float(cell)
    ok = float_close(fn, got, v, cond_bound(fn, rows, kind))
    return (ok, ok and exact_float(got, v))


def parse_model_line(line):
    """'<outcome> | <spec value>' -> (plan outcome, spec value)"""
    if line.startswith("badcase"):
        raise SystemExit("model rejected a case: " + line)
    a, b = line.split(" | ")
    a = a.strip()
    if a.startswith("ok "):
        plan = ("ok", parse_model_value(a[3:]))
    else:
        plan = (a,)
    return plan, ("ok", parse_model_value(b.strip()))


# ---------------------------------------------------------------- known classes
def abs_sum_rows(rows):
    return sum(abs(int(cell_frac(r))) for r in rows if r != "N")


def known_class(fn, types, rows, engine_out, plan_model, spec, kf_ids):
    """a state- or SQL-level deviation of the engine from the specification that belongs to a listed finding"""
    t = types[0]
    if fn == "sum" and t != "f64" and engine_out.startswith("err Sum overflowed"):
        w = 128 if t.startswith("dec") else 64
        if abs_sum_rows(rows) >= 2 ** (w - 1) and "sum-error-on-intermediate-overflow" in kf_ids:
            return "sum-error-on-intermediate-overflow"
    if fn == "avg" and t.startswith("dec128") and engine_out.startswith("err Avg overflowed"):
        # checked i128 accumulator (2f7b0a8b9): an error is only acceptable when a partial sum can leave i128;
        # a panic or a wrapped value is a violation
        if abs_sum_rows(rows) >= 2 ** 127 and "avg-decimal-error-on-intermediate-overflow" in kf_ids:
            return "avg-decimal-error-on-intermediate-overflow"
    return None


# ---------------------------------------------------------------- state level
def stage_state(ctx, rng, gbin, gmodel, kf_ids):
    cases = make_state_cases(rng, ctx["tier"])
    real = common.run_harness(gbin, [], [{k: v for k, v in c.items() if k in ("id", "fn", "types", "chunks", "plan", "sep")}
                                         for c in cases], timeout=1200)
    lines = []
    for c in cases:
        kind = item_kind(c["fn"], c["types"])
        mn = model_name(c["fn"], c["types"])
        if c["fn"] == "string_agg":
            mn = "string_agg:" + hexs(c.get("sep", ","))
        lines.append("(%s %s)" % (mn, plan_sexp(c["plan"], c["chunks"], kind)))
    outs = common.run_model(gmodel, "aggfn", lines, timeout=1800)
    viol, known, exact, nfloat, distinct = [], {}, 0, 0, set()
    by_fn = {}
    for c, r, o in zip(cases, real, outs):
        fn, types = c["fn"], c["types"]
        kind = item_kind(fn, types)
        rows = [x for i in plan_leaves(c["plan"]) for x in c["chunks"][i]]
        plan_m, spec = parse_model_line(o)
        replay = {"function": fn, "types": types, "chunks": c["chunks"], "plan": c["plan"], "sep": c.get("sep"),
                  "engine": r.get("out", r), "model_plan": o.split(" | ")[0], "spec": o.split(" | ")[1],
                  "run": "echo '<this case as JSON: id, fn, types, chunks, plan, sep>' | .work/target/debug/gv_aggfn"}
        if "out" not in r:
            viol.append({"what": "state level: harness could not run the case (%s)" % json.dumps(r)[:200],
                         "replay": replay, "no_input": False})
            continue
        eo = r["out"]
        by_fn[fn] = by_fn.get(fn, 0) + 1
        distinct.add((fn, tuple(types), json.dumps(c["chunks"]), json.dumps(c["plan"])))
        # (1) faithfulness: the real state functions and the transcription agree on this plan
        ok_m, ex = compare(fn, types, eo, plan_m, rows, kind)
        # (2) the property: the plan's result is the specification of the whole input
        ok_s, ex2 = compare(fn, types, eo, spec, rows, kind)
        if ok_m and ok_s:
            if eo.startswith("ok F"):
                nfloat += 1
                exact += 1 if ex2 else 0
            continue
        k = known_class(fn, types, rows, eo, plan_m, spec, kf_ids)
        if k:
            known.setdefault(k, []).append(replay)
        elif not ok_m:
            viol.append({"what": "state level: real %s%s state functions disagree with model/AggFn.v on a merge plan"
                                 % (fn, tuple(types)), "replay": replay, "no_input": False})
        else:
            viol.append({"what": "state level: %s%s over a split input is not the aggregate of the whole input "
                                 "(engine %s, specification %s)" % (fn, tuple(types), eo, o.split(" | ")[1]),
                         "replay": replay, "no_input": False})
    sample = None
    for c, r, o in zip(cases, real, outs):
        if c["fn"] == "var_samp" and not isinstance(c["plan"], int) and "out" in r and r["out"].startswith("ok F"):
            sample = {"function": c["fn"], "chunks": c["chunks"], "plan": c["plan"], "engine": r["out"],
                      "engine_text": r.get("text"), "model": o}
            break
    return {"cases": len(cases), "violations": viol, "known": known, "float_results": nfloat, "float_exact": exact,
            "by_function": by_fn, "distinct": len(distinct), "sample": sample}


# ---------------------------------------------------------------- SQL level
SQL_T = {"f64": "f64", "i64": "i64", "i32": "i32", "i16": "i16", "bool": "bool", "utf8": "text"}
SQL_DECS = [(10, 2), (18, 0), (18, 6), (38, 0), (30, 10), (20, 5), (9, 4)]
PARTS = [1, 2, 3, 4, 8]


def make_sql_case(rng, n):
    """one table t(g, a, b, i, d, s, k, c) filled by several INSERTs, queried under every partition count"""
    p, s = rng.choice(SQL_DECS)
    dt = "dec%d(%d,%d)" % (64 if p <= 18 else 128, p, s)
    it = rng.choice(["i64", "i64", "i32", "i16"])
    cols = [("g", "i32"), ("a", "f64"), ("b", "f64"), ("i", it), ("d", "dec(%d,%d)" % (p, s)), ("s", "text"), ("k", "bool"),
            ("c", "f64"), ("u", "u64")]
    ngroups = rng.choice([1, 2, 3, 4])
    nchunks = 1 + rng.below(5)
    big_ints = rng.chance(12) and it == "i64"
    chunks = []
    for _ in range(nchunks):
        shape = rng.choice(["allnull", "single", "plain", "plain", "plain", "withnulls"])
        nrows = {"allnull": 1 + rng.below(3), "single": 1}.get(shape, 1 + rng.below(6))
        fa, fb = rng.choice(FLOAT_FLAVOURS), rng.choice(["ints", "mixed", "equal", "neg", "cancel"])
        fi = rng.choice(["zeros", "cancel", "equal", "bigsmall", "neg", "mixed", "mixed"])
        fd = rng.choice(["zeros", "cancel", "equal", "neg", "mixed", "mixed", "bigsmall"])
        av = gen_float_vals(rng, fa, nrows)
        bv = gen_float_vals(rng, fb, nrows, dyadic=True)
        cv = gen_float_vals(rng, rng.choice(["ints", "mixed", "equal", "neg", "cancel", "zeros"]), nrows, dyadic=True)
        iv = gen_int_vals(rng, fi, nrows, it, big_ints)
        if not big_ints and it == "i64":
            iv = [v % (2 ** 40) if fi == "bigsmall" else v for v in iv]
        dv = gen_int_vals(rng, fd, nrows, dt, False)
        if p > 36:      # keep AVG(decimal)'s i128 accumulator in range at this level (the state level covers the overflow)
            dv = [max(-10 ** 36, min(10 ** 36, v)) for v in dv]
        uv = gen_int_vals(rng, rng.choice(["bigsmall", "bigsmall", "mixed", "zeros", "equal"]), nrows, "u64", True)
        m = min(len(av), len(bv), len(cv), len(iv), len(dv), len(uv), nrows) or 1
        rows = []
        for j in range(m):
            g = "I%d" % (1 + rng.below(ngroups))
            if shape == "allnull":
                rows.append([g, "N", "N", "N", "N", "N", "N", "N", "N"])
                continue
            row = [g, fcell(av[j % len(av)]), fcell(bv[j % len(bv)]), "I%d" % iv[j % len(iv)],
                   "D%d/%d/%d" % (dv[j % len(dv)], p, s), "S" + rng.choice([x for x in STR_POOL if x and "," not in x]),
                   "B1" if rng.chance(60) else "B0", fcell(cv[j % len(cv)]), "I%d" % uv[j % len(uv)]]
            if shape == "withnulls":
                row = [row[0]] + [("N" if rng.chance(25) else x) for x in row[1:]]
            rows.append(row)
        chunks.append(rows)
    stmts = [gen.create_table("t", cols)]
    for rows in chunks:
        stmts += gen.insert_rows("t", cols, rows)
    # queries: (sql select list entry, function, types, argument columns, distinct?)
    A, B, I, D, S, K, C, U = 1, 2, 3, 4, 5, 6, 7, 8
    calls = []
    for f in ("avg", "sum", "var_pop", "var_samp", "stddev_pop", "stddev_samp", "count"):
        calls.append(("%s(a)" % f, f, ["f64"], [A], False))
    for f in ("covar_pop", "covar_samp", "regr_avgx", "regr_avgy", "regr_count"):
        calls.append(("%s(a, b)" % f, f, ["f64", "f64"], [A, B], False))
    for f in ("corr", "regr_slope", "regr_r2", "covar_pop", "covar_samp"):
        calls.append(("%s(b, c)" % f, f, ["f64", "f64"], [B, C], False))
    for f in ("avg", "sum", "min", "max", "bit_and", "bit_or", "count"):
        calls.append(("%s(i)" % f, f, [it], [I], False))
    for f in ("avg", "sum", "min", "max"):
        calls.append(("%s(d)" % f, f, [dt], [D], False))
    for f in ("avg", "sum", "sum", "avg", "max", "count"):
        calls.append(("%s(u)" % f, f, ["u64"], [U], False))
    calls += [("string_agg(s, ',')", "string_agg", ["utf8", "utf8"], [S], False), ("first(s)", "first", ["utf8"], [S], False),
              ("first(i)", "first", [it], [I], False), ("bool_and(k)", "bool_and", ["bool"], [K], False),
              ("bool_or(k)", "bool_or", ["bool"], [K], False), ("count(s)", "count", ["utf8"], [S], False)]
    dcalls = [("avg(distinct a)", "avg", ["f64"], [A], True), ("sum(distinct a)", "sum", ["f64"], [A], True),
              ("var_pop(distinct a)", "var_pop", ["f64"], [A], True), ("stddev_samp(distinct a)", "stddev_samp", ["f64"], [A], True),
              ("sum(distinct i)", "sum", [it], [I], True), ("avg(distinct i)", "avg", [it], [I], True),
              ("count(distinct i)", "count", [it], [I], True), ("min(distinct i)", "min", [it], [I], True),
              ("sum(distinct d)", "sum", [dt], [D], True), ("avg(distinct d)", "avg", [dt], [D], True),
              ("sum(distinct u)", "sum", ["u64"], [U], True), ("avg(distinct u)", "avg", ["u64"], [U], True),
              ("count(distinct s)", "count", ["utf8"], [S], True), ("string_agg(distinct s, ',')", "string_agg", ["utf8", "utf8"], [S], True),
              ("bool_and(distinct k)", "bool_and", ["bool"], [K], True)]
    # a random half of the calls per query keeps the statements short
    qs = []
    for part in PARTS:
        sel = [c for c in calls if rng.chance(45)] or calls[:3]
        dsel = [c for c in dcalls if rng.chance(35)] or dcalls[:2]
        for grouped in (True, False):
            for cs in (sel, dsel):
                lst = ", ".join("%s as r%d" % (c[0], j) for j, c in enumerate(cs))
                sql = ("select g, %s from t group by g" % lst) if grouped else ("select %s from t" % lst)
                qs.append({"partitions": part, "grouped": grouped, "calls": cs, "sql": sql})
    return {"id": "q%d" % n, "stmts": stmts, "chunks": chunks, "queries": qs, "int_type": it, "dec": (p, s),
            "mode": "det" if rng.chance(75) else "threaded", "threads": rng.choice([2, 4]),
            "sched": {"kind": rng.choice(["fifo", "lifo", "random"]), "seed": rng.below(1 << 30)}}


def dedup(rows):
    seen, out = set(), []
    for r in rows:
        key = r if r[0] != "F" else "F%r" % (Fraction(cell_float(r)),)
        if key not in seen:
            seen.add(key)
            out.append(r)
    return out


def stage_sql(ctx, rng, gverif, gmodel, kf_ids):
    ncases = 36 if ctx["tier"] == "quick" else 400
    work = [make_sql_case(rng, i) for i in range(ncases)]
    hcases = []
    for w in work:
        stmts = list(w["stmts"])
        pos = []
        for q in w["queries"]:
            stmts += ["set partitions to %d" % q["partitions"], q["sql"]]
            pos.append(len(stmts) - 1)
        w["all_stmts"], w["pos"] = stmts, pos
        c = {"id": w["id"], "mode": w["mode"], "threads": w["threads"], "stmts": stmts, "timeout_s": 60}
        if w["mode"] == "det":
            c["partitions"] = 2
            c["sched"] = w["sched"]
        hcases.append(c)
    real = common.run_harness(gverif, "sql", hcases, timeout=3000)
    # expected values: one model line per (case, group, call)
    lines, index = [], {}
    for w in work:
        allrows = [r for ch in w["chunks"] for r in ch]
        groups = sorted(set(r[0] for r in allrows))
        for q in w["queries"]:
            for grp in (groups if q["grouped"] else [None]):
                rows = [r for r in allrows if grp is None or r[0] == grp]
                for (txt, fn, types, argcols, distinct) in q["calls"]:
                    kind = item_kind(fn, types)
                    if kind == "pair":
                        args = [[r[argcols[0]], r[argcols[1]]] for r in rows]     # f(y, x): first argument is y
                    else:
                        args = [r[argcols[0]] for r in rows]
                    if distinct:
                        args = dedup([a for a in args if a != "N"])
                    key = (w["id"], grp, txt)
                    if key in index:
                        continue
                    mn = model_name(fn, types)
                    if fn == "string_agg":
                        mn = "string_agg:" + hexs(",")
                    index[key] = (len(lines), args, kind)
                    lines.append("(%s (leaf %s))" % (mn, " ".join(model_item(kind, a) for a in args)))
    outs = common.run_model(gmodel, "aggfn", lines, timeout=3000)
    viol, known, ncells, nq, nfloat, exact, distinct_q, nblocked = [], {}, 0, 0, 0, 0, set(), 0
    for w, r in zip(work, real):
        res = r.get("results")
        setup_n = len(w["stmts"])
        if res is None or any(not x.get("ok") for x in (res or [])[:setup_n]):
            viol.append({"what": "SQL level: table setup failed or the engine died", "no_input": False,
                         "replay": {"stmts": w["stmts"], "engine": json.dumps(r)[:600]}})
            continue
        for q, p in zip(w["queries"], w["pos"]):
            cfg = {"mode": w["mode"], "threads": w["threads"], "sched": w.get("sched"), "partitions": q["partitions"]}
            replay = {"stmts": w["stmts"] + ["set partitions to %d" % q["partitions"], q["sql"]], "config": cfg}
            nq += 1
            distinct_q.add((q["sql"], q["partitions"], w["id"]))
            if p >= len(res):
                nblocked += 1       # an earlier statement of this case panicked (reported there)
                continue
            e = res[p]
            if not e.get("ok"):
                msg = e.get("err", "")
                allrows = [x for ch in w["chunks"] for x in ch]
                if "Sum overflowed" in msg and w["int_type"] == "i64" and \
                        abs_sum_rows([x[3] for x in allrows]) >= 2 ** 63 and "sum-error-on-intermediate-overflow" in kf_ids:
                    known.setdefault("sum-error-on-intermediate-overflow", []).append(replay)
                    continue
                if "Avg overflowed" in msg and w["dec"][0] > 18 and \
                        any(c[1] == "avg" and c[2][0].startswith("dec128") for c in q["calls"]) and \
                        abs_sum_rows([x[4] for x in allrows]) >= 2 ** 127 and \
                        "avg-decimal-error-on-intermediate-overflow" in kf_ids:
                    known.setdefault("avg-decimal-error-on-intermediate-overflow", []).append(replay)
                    continue
                viol.append({"what": "SQL level: aggregate query failed: %s" % json.dumps(e)[:300], "replay": replay,
                             "no_input": False})
                continue
            allrows = [x for ch in w["chunks"] for x in ch]
            want_groups = sorted(set(x[0] for x in allrows)) if q["grouped"] else [None]
            got_rows = e["rows"]
            if q["grouped"]:
                got_keys = sorted(x[0] for x in got_rows)
                if got_keys != want_groups:
                    viol.append({"what": "SQL level: GROUP BY returned groups %s, the table has %s" % (got_keys, want_groups),
                                 "replay": replay, "no_input": False})
                    continue
            elif len(got_rows) != 1:
                viol.append({"what": "SQL level: ungrouped aggregate returned %d rows" % len(got_rows), "replay": replay,
                             "no_input": False})
                continue
            for grow in got_rows:
                grp = grow[0] if q["grouped"] else None
                cells = grow[1:] if q["grouped"] else grow
                rows = [x for x in allrows if grp is None or x[0] == grp]
                for (txt, fn, types, argcols, distinct), cell in zip(q["calls"], cells):
                    li, args, kind = index[(w["id"], grp, txt)]
                    _, spec = parse_model_line(outs[li])
                    ncells += 1
                    eo = "ok " + cell
                    if fn == "string_agg":
                        # the order of the rows inside a group is not defined: compare the bags of pieces
                        want = spec[1]
                        if want[0] == "N":
                            ok = cell == "N"
                        else:
                            pieces = sorted(a[1:] for a in args if a != "N")
                            ok = cell != "N" and sorted(cell[1:].split(",")) == pieces
                        ex = False
                    elif fn == "first":
                        nonnull = [a for a in args if a != "N"]
                        ok = (cell == "N") if not nonnull else (cell in nonnull)
                        ex = False
                    else:
                        ok, ex = compare(fn, types, eo, spec, args, kind)
                    if ok:
                        if cell[0] == "F":
                            nfloat += 1
                            exact += 1 if ex else 0
                        continue
                    k = known_class(fn, types, args, eo, None, spec, kf_ids)
                    rp = dict(replay, call=txt, group=grp, got=cell, specification=outs[li].split(" | ")[1],
                              group_rows=args)
                    if k:
                        known.setdefault(k, []).append(rp)
                    else:
                        viol.append({"what": "SQL level: %s over group %s with partitions=%d is %s, the aggregate of the "
                                             "group's rows is %s" % (txt, grp, q["partitions"], cell, outs[li].split(" | ")[1]),
                                     "replay": rp, "no_input": False})
    # fixed SQL-level witnesses of the listed findings
    for (stmts, fn, types, args, mline) in FIXED_SQL:
        r = common.run_harness(gverif, "sql", [{"id": "fx", "mode": "det", "threads": 1, "partitions": 2,
                                                "sched": {"kind": "fifo", "seed": 1}, "stmts": stmts, "timeout_s": 60}],
                               timeout=300)[0]
        e = (r.get("results") or [{}])[-1]
        plan_m, spec = parse_model_line(common.run_model(gmodel, "aggfn", [mline])[0])
        replay = {"stmts": stmts, "engine": json.dumps(e)[:300], "specification": spec and mline}
        nq += 1
        if not e.get("ok") or len(e.get("rows", [])) != 1:
            viol.append({"what": "SQL level: fixed witness query failed", "replay": replay, "no_input": False})
            continue
        eo = "ok " + e["rows"][0][0]
        ncells += 1
        if compare(fn, types, eo, spec, args, item_kind(fn, types))[0]:
            continue
        k = known_class(fn, types, args, eo, plan_m, spec, kf_ids)
        if k:
            known.setdefault(k, []).append(replay)
        else:
            viol.append({"what": "SQL level: %s is %s, the specification says %s" % (stmts[-1], eo, mline),
                         "replay": replay, "no_input": False})
    sample = None
    if work and real and real[0].get("results"):
        w = work[0]
        q = w["queries"][0]
        sample = {"inserts": len(w["stmts"]) - 1, "sql": q["sql"], "partitions": q["partitions"],
                  "rows": real[0]["results"][w["pos"][0]].get("rows")}
    return {"cases": ncases, "queries": nq, "cells": ncells, "violations": viol, "known": known, "blocked": nblocked,
            "float_results": nfloat, "float_exact": exact, "distinct": len(distinct_q), "sample": sample}


# ---------------------------------------------------------------- driver
def run(ctx):
    t0 = time.time()
    rng = common.Rng(ctx["seed"])
    out = {"violations": [], "known": [], "assumptions": []}
    gbin, _ = common.build_harness(bin="gv_aggfn")
    gverif, _ = common.build_harness()
    pr = common.coq_props(PROPS)
    audit = common.audit_sources([f for f in common.coq_sources() if "AggFn" in f or f.endswith("C07fn.v")
                                  or f.endswith("ExtractAggfn.v")])
    obligations = pr["declared"]
    bad_assum = common.check_assumptions(pr) if pr["ok"] else []
    proof_broken = (not pr["ok"]) or bool(bad_assum) or bool(audit)
    discharged = 0 if proof_broken else len(obligations)
    gmodel = common.build_ocaml("aggfn")
    kf_ids = set(k.get("id") for k in common.known_findings()["known"])
    t1 = time.time()
    st = stage_state(ctx, rng, gbin, gmodel, kf_ids)
    t2 = time.time()
    sq = stage_sql(ctx, rng, gverif, gmodel, kf_ids)
    ck = stage_const(gverif)
    t3 = time.time()
    out["violations"] += st["violations"] + sq["violations"] + ck["violations"]
    for kid in sorted(set(st["known"]) | set(sq["known"])):
        reps = st["known"].get(kid, []) + sq["known"].get(kid, [])
        ex = reps[0]
        brief = ex.get("stmts", None) and ex["stmts"][-1] or {"function": ex.get("function"), "types": ex.get("types"),
                                                                "chunks": ex.get("chunks"), "plan": ex.get("plan")}
        out["known"].append("%s/%s reproduced in %d case(s), e.g. %s" % (PID, kid, len(reps), json.dumps(brief)[:300]))
    if proof_broken and not out["violations"]:
        out["violations"].append({
            "what": "theorem(s) in %s no longer check and the correspondence runs found no failing input" % PROPS,
            "replay": {"proof_failed_at": pr.get("failed_at"), "log_tail": pr["log"][-1500:] if not pr["ok"] else "",
                       "assumption_problems": bad_assum, "audit": audit}, "no_input": True})
    elif proof_broken:
        out["violations"].append({"what": "theorem(s) in %s no longer check (failing inputs reported separately)" % PROPS,
                                  "replay": {"proof_failed_at": pr.get("failed_at"), "assumption_problems": bad_assum,
                                             "audit": audit, "log_tail": pr["log"][-800:] if not pr["ok"] else ""},
                                  "no_input": True})
    out["coverage"] = {
        "obligations": len(obligations), "discharged": discharged,
        "checker_cmd": "cd coq && coq_makefile -f _CoqProject -o Makefile && make props/C07fn.vo  (Print Assumptions parsed; "
                       "Admitted/Axiom audit over the AggFn files)",
        "trusted_base": ["Coq 8.16.1 kernel (vm_compute in closed witness lemmas)",
                         "model/AggFn.v is a hand transcription of functions/aggregate/builtin/*.rs, tied to the code by the "
                         "state-level diff (harness/src/bin/gv_aggfn.rs drives the real state functions via the hook "
                         "PlannedAggregateFunction::verif_*)",
                         "extraction (ExtrOcamlBasic only) + ocaml/aggfn.ml parsing/printing",
                         "f64 accumulators are exact rationals in the model: rounding, NaN, infinities and signed zeros are "
                         "outside it; float results are compared with the exact value within 1e-9 relative + 1e-12 x an "
                         "input-dependent conditioning bound (vlib/c07fn.py cond_bound)",
                         "harness/src/sql.rs for the SQL level"],
        "theorems": obligations,
        "evaluations": st["cases"] + sq["cells"] + ck["queries"],
        "distinct_nontrivial": st["distinct"] + sq["distinct"],
        "rule": "state level: every generated (function, input type, chunks, merge plan) is run on the real state functions and "
                "on the extracted model, plus the sequential run over the same rows; the engine must agree with the model's "
                "plan result AND with the specification of the flattened rows; distinct = distinct (function, types, chunks, "
                "plan).  SQL level: tables from several INSERTs, partitions in {1,2,3,4,8}, grouped and ungrouped, plain and "
                "DISTINCT calls, every result cell compared with the specification of the group's rows; distinct = distinct "
                "(case, SQL text, partitions).",
        "samples": [st["sample"], sq["sample"]],
        "state_cases": st["cases"], "state_cases_by_function": st["by_function"],
        "state_float_results": st["float_results"], "state_float_results_correctly_rounded_exact": st["float_exact"],
        "sql_cases": sq["cases"], "sql_queries": sq["queries"], "sql_cells_compared": sq["cells"],
        "sql_queries_not_run_after_a_panic": sq["blocked"],
        "sql_required_constant_column_queries": ck["queries"],
        "sql_float_results": sq["float_results"], "sql_float_results_correctly_rounded_exact": sq["float_exact"],
        "wall_build_and_proofs_s": round(t1 - t0, 1), "wall_state_s": round(t2 - t1, 1), "wall_sql_s": round(t3 - t2, 1),
    }
    out["assumptions"] = [
        "exact-rational model of the f64 accumulators: the theorems are about the algorithm; the float comparison tolerance "
        "is 1e-9 relative plus 1e-12 times a bound computed from the inputs (sum |x|, n (spread M + spread^2))",
        "count fields (i64) and the i128 sum of AVG(bigint / decimal64) are unbounded in the model: overflowing them needs "
        "2^63 / 2^64 rows",
        "float text parsing delivers the intended bit patterns into SQL tables (repr round trip)"]
    out["wall"] = time.time() - t0
    return out
