"""C08 — ORDER BY yields a correctly sorted permutation; LIMIT/OFFSET the exact slice."""
import json, time
from . import common, tables, gen

PID = "C08"
PROPS = "props/C08.v"

# harness type -> (model key type builder, bits for exhaustive)
def model_kty(ht, tb):
    m = {"i8": "s1", "i16": "s2", "i32": "s4", "i64": "s8", "i128": "s16",
         "u8": "u1", "u16": "u2", "u32": "u4", "u64": "u8", "u128": "u16",
         "date32": "s4", "interval": "iv",
         "utf8": "str:%d" % (tb.get("string_prefix_width") or 12),
         "binary": "str:%d" % (tb.get("string_prefix_width") or 12),
         "bool": "b:%d:%d" % (tb.get("bool_true_key") if tb.get("bool_true_key") is not None else 1,
                              tb.get("bool_false_key") if tb.get("bool_false_key") is not None else 0),
         "f16": "f2:%d" % (tb.get("f16_shift") if tb.get("f16_shift") is not None else 15),
         "f32": "f4:%d" % (tb.get("f32_shift") if tb.get("f32_shift") is not None else 31),
         "f64": "f8:%d" % (tb.get("f64_shift") if tb.get("f64_shift") is not None else 63)}
    if ht.startswith("dec64"):
        return "s8"
    if ht.startswith("dec128"):
        return "s16"
    return m[ht]


WIDTH = {"i8": 1, "i16": 2, "i32": 4, "i64": 8, "i128": 16, "u8": 1, "u16": 2, "u32": 4, "u64": 8, "u128": 16,
         "f16": 2, "f32": 4, "f64": 8, "date32": 4}


def cell_to_model(ht, cell):
    """harness cell -> model value token"""
    if cell == "N":
        return "N"
    tag, body = cell[0], cell[1:]
    if ht in ("utf8",):
        return "x" + body.encode("utf-8").hex()
    if ht == "binary":
        return "x" + body
    if ht == "bool":
        return body
    if ht == "interval":
        m, d, n = [int(x) for x in body.split("/")]
        return "v%d/%d/%d" % (m & 0xffffffff, d & 0xffffffff, n & 0xffffffffffffffff)
    if tag == "F":
        return str(int(body, 16))
    if tag == "D":
        v = int(body.split("/")[0])
        w = 8 if ht.startswith("dec64") else 16
        return str(v & ((1 << (8 * w)) - 1))
    if tag in ("I", "T"):
        v = int(body)
        w = WIDTH[ht]
        return str(v & ((1 << (8 * w)) - 1))
    raise ValueError((ht, cell))


def rand_cell(rng, ht):
    if rng.chance(12):
        return "N"
    if ht in WIDTH and ht[0] in "iu":
        w = WIDTH[ht]
        signed = ht[0] == "i"
        pool = gen.int_pool(w, signed)
        if rng.chance(50):
            return "I%d" % rng.choice(pool)
        x = 0
        for _ in range(w // 8 + 1):
            x = (x << 64) | rng.next()
        x &= (1 << (8 * w)) - 1
        if rng.chance(30):
            x &= 0xFF
        if signed and x >= 1 << (8 * w - 1):
            x -= 1 << (8 * w)
        return "I%d" % x
    if ht == "date32":
        return "T%d" % (rng.below(80000) - 40000)
    if ht == "f16":
        return "F%x" % (rng.next() & 0xffff)
    if ht == "f32":
        return "F%x" % (rng.choice(gen.F32_POOL) if rng.chance(50) else rng.next() & 0xffffffff)
    if ht == "f64":
        if rng.chance(50):
            return "F%x" % rng.choice(gen.F64_POOL)
        b = rng.next()
        if rng.chance(50):  # same upper 32 bits as a pool value, random lower word
            b = (rng.choice(gen.F64_POOL) & 0xffffffff00000000) | (rng.next() & 0xffffffff)
        return "F%x" % b
    if ht == "bool":
        return "B%d" % rng.below(2)
    if ht == "utf8":
        return gen.value(rng, "text", 0)
    if ht == "binary":
        n = rng.below(18)
        base = bytes([rng.choice([0, 1, 0x61, 0x62, 0xff, 0xfe, 0x7f, 0x80]) for _ in range(n)])
        if rng.chance(40):
            base = b"abcdefghijkl"[:rng.below(13)] + base
        return "X" + base.hex()
    if ht == "interval":
        f = lambda bits: (rng.choice([0, 1, -1, 2, 12, -12, (1 << (bits - 1)) - 1, -(1 << (bits - 1))])
                          if rng.chance(70) else rng.below(1000) - 500)
        return "V%d/%d/%d" % (f(32), f(32), f(64))
    if ht.startswith("dec"):
        p, s = [int(x) for x in ht[ht.index("(") + 1:-1].split(",")]
        lim = 10 ** p - 1
        x = rng.choice([0, 1, -1, lim, -lim]) if rng.chance(40) else rng.next() % (2 * lim + 1) - lim
        return "D%d/%d/%d" % (x, p, s)
    raise ValueError(ht)


KEY_TYPES = ["i8", "i16", "i32", "i64", "i128", "u8", "u16", "u32", "u64", "u128", "f16", "f32", "f64",
             "bool", "utf8", "binary", "interval", "date32", "dec64(10,2)", "dec128(30,5)"]


def k1_cases(rng, tier):
    cases = []
    # exhaustive 16-bit and 8-bit sweeps in every (desc, nulls_first) combination
    for ht in ("i16", "u16", "f16"):
        for desc in (False, True):
            for nf in (False, True):
                cases.append({"id": "all16-%s-%d%d" % (ht, desc, nf), "exh": 16,
                              "cols": [{"type": ht, "desc": desc, "nulls_first": nf, "all16": True}]})
    for ht in ("i8", "u8"):
        cases.append({"id": "all8-%s" % ht, "exh": 8,
                      "cols": [{"type": ht, "desc": False, "nulls_first": False, "all8": True}]})
    n = 150 if tier == "quick" else 20000
    for i in range(n):
        ncols = 1 + rng.below(4)
        nrows = 8 + rng.below(40)
        cols = []
        for _ in range(ncols):
            ht = rng.choice(KEY_TYPES)
            cols.append({"type": ht, "desc": bool(rng.below(2)), "nulls_first": bool(rng.below(2)),
                         "values": [rand_cell(rng, ht) for _ in range(nrows)]})
        cases.append({"id": "r%d" % i, "cols": cols})
    return cases


def model_lines_for(case, tb):
    cols = " ".join("%s,%d,%d" % (model_kty(c["type"], tb), c["desc"], c["nulls_first"]) for c in case["cols"])
    lines = ["cols " + cols]
    if "exh" in case:
        lines.append("all %d" % case["exh"])
        return lines, 1 << case["exh"]
    n = len(case["cols"][0]["values"])
    for r in range(n):
        lines.append("row " + " ".join(cell_to_model(c["type"], c["values"][r]) for c in case["cols"]))
    return lines, n


def stage_keys(ctx, rng, tb, gverif, gmodel):
    """K1: real key bytes == model key bytes."""
    cases = k1_cases(rng, ctx["tier"])
    real = common.run_harness(gverif, "sortkey", cases, timeout=900)
    lines, counts = [], []
    for c in cases:
        l, n = model_lines_for(c, tb)
        lines += l
        counts.append(n)
    mout = common.run_model(gmodel, "sortkey", lines, timeout=900)
    pos, mism, rows_total, distinct = 0, [], 0, set()
    for c, r, n in zip(cases, real, counts):
        want = mout[pos:pos + n]
        pos += n
        rows_total += n
        if "rows" not in r:
            mism.append({"case": c["id"], "real": r, "kind": "harness-error"})
            continue
        if r["rows"] != want:
            for i, (a, b) in enumerate(zip(r["rows"], want)):
                if a != b:
                    vals = None if "exh" in c else [col["values"][i] for col in c["cols"]]
                    mism.append({"case": c["id"], "row": i, "real_bytes": a, "model_bytes": b, "values": vals,
                                 "cols": [{k: v for k, v in col.items() if k != "values"} for col in c["cols"]]})
                    break
        distinct.update(want if n < 5000 else want[::97])
    return {"cases": len(cases), "rows": rows_total, "distinct": len(distinct), "mismatches": mism,
            "sample": {"cols": [{k: v for k, v in col.items() if k != "values"} for col in cases[-1]["cols"]],
                       "row0": [col["values"][0] for col in cases[-1]["cols"]], "bytes0": real[-1].get("rows", ["?"])[0]}}


# ---------------------------------------------------------------- SQL stage
SQL_KEY_TYPES = ["i8", "i16", "i32", "i64", "u8", "u16", "u32", "u64", "f32", "f64", "bool", "text", "date",
                 "dec(10,2)", "dec(30,5)"]
HT = {"i8": "i8", "i16": "i16", "i32": "i32", "i64": "i64", "u8": "u8", "u16": "u16", "u32": "u32", "u64": "u64",
      "f32": "f32", "f64": "f64", "bool": "bool", "text": "utf8", "date": "date32",
      "dec(10,2)": "dec64(10,2)", "dec(30,5)": "dec128(30,5)"}


def spec_kty(t):
    ht = HT[t]
    if ht == "utf8":
        return "str:12"
    if ht == "bool":
        return "b:1:0"
    if ht == "f32":
        return "f4:31"
    if ht == "f64":
        return "f8:63"
    return model_kty(ht, {})


def sql_cases(rng, tier):
    cases = []
    n = 60 if tier == "quick" else 1500
    for i in range(n):
        ncols = 2 + rng.below(3)
        cols = [("c%d" % j, rng.choice(SQL_KEY_TYPES)) for j in range(ncols)]
        cols.append(("rid", "i32"))  # unique payload column
        batch = rng.choice([1, 2, 3, 7, 16, 64, 2048])
        nrows = rng.choice([0, 1, 2, batch, batch + 1, 3 * batch + 1, 50, 130, 300]) if batch < 100 else rng.choice([0, 1, 5, 60, 300])
        nrows = min(nrows, 400)
        if tier != "quick" and rng.chance(2):
            nrows = rng.choice([1000, 2049])   # several blocks per run, deeper merge trees
        # half of the cases: a "tie" family - few distinct values per column so that earlier keys tie, and text
        # values that share a prefix longer than the 12-byte key prefix (with duplicates), so that the order is
        # decided by the heap comparison in the block sort and in the merge of several runs
        tie = rng.chance(50)
        if tie and nrows < 12:
            nrows = rng.choice([12, 20, 40])

        def cell(t):
            if not tie:
                return gen.value(rng, t)
            if rng.chance(8):
                return "N"
            k = gen.tinfo(t)[2]
            if k == "str":
                return "S" + rng.choice(["prefix_shared_" + x for x in ("A", "B", "C", "D", "", "AA", "B", "C")] + ["a", "b"] +
                                        (["a\x00", "a\x00\x00", "b\x00", "elevenchars\x00", "", "\x00"] if rng.chance(40) else []))
            if k == "int":
                return "I%d" % rng.choice([1, 2, 2, 3])
            if k == "bool":
                return "B%d" % rng.below(2)
            return gen.value(rng, t)
        if tie and not any(t == "text" for _, t in cols[:-1]):
            cols[0] = (cols[0][0], "text")
        rows = [[cell(t) for _, t in cols[:-1]] + ["I%d" % r] for r in range(nrows)]
        parts = rng.choice([1, 2, 3, 4, 8])
        # several INSERT statements = several stored chunks = several sort runs to merge
        stmts = ["set partitions to %d" % parts, gen.create_table("t", cols)] + \
            gen.insert_rows("t", cols, rows, chunk=rng.choice([3, 5, 200]) if tie else 200)
        stmts.append("set batch_size to %d" % batch)
        queries = []
        for q in range(5):
            nk = 1 + rng.below(min(3, ncols))
            keyidx = rng.shuffle(list(range(ncols)))[:nk]
            keys = []
            for k in keyidx:
                desc = bool(rng.below(2))
                nulls = rng.choice([None, "first", "last"])
                keys.append((k, desc, nulls))
            lim = rng.choice([None, None, 0, 1, 2, batch, batch + 1, nrows, nrows + 3, max(nrows - 1, 0), 5])
            off = rng.choice([None, None, 0, 1, batch, nrows, max(nrows - 1, 0), 3])
            if lim is None:
                off = None  # dialect: OFFSET without LIMIT is rejected as unsupported
            optimizer = rng.below(4) != 0
            ob = ", ".join("c%d%s%s" % (k, " desc" if d else "", "" if nl is None else " nulls " + nl) for k, d, nl in keys)
            sql = "select * from t order by %s" % ob
            if lim is not None:
                sql += " limit %d" % lim
            if off is not None:
                sql += " offset %d" % off
            queries.append({"sql": sql, "keys": keys, "lim": lim, "off": off, "opt": optimizer})
        for q in queries:
            stmts.append("set enable_optimizer to %s" % ("true" if q["opt"] else "false"))
            stmts.append(q["sql"])
        # LIMIT/OFFSET without ORDER BY: some arrangement of the input
        lim0, off0 = rng.choice([0, 1, batch, nrows // 2 + 1]), rng.choice([0, 1, batch])
        stmts.append("select * from t limit %d offset %d" % (lim0, off0))
        cases.append({"id": "s%d" % i, "mode": "threaded", "threads": rng.choice([1, 4]), "stmts": stmts,
                      "meta": {"cols": cols, "rows": rows, "queries": queries, "nolimit": (lim0, off0),
                               "nstmts_before": len(stmts) - 2 * len(queries) - 1, "batch": batch, "parts": parts},
                      "timeout_s": 120})
    return cases


def stage_sql(ctx, rng, gverif, gmodel):
    cases = sql_cases(rng, ctx["tier"])
    send = [{k: v for k, v in c.items() if k != "meta"} for c in cases]
    real = common.run_harness(gverif, "sql", send, timeout=1800)
    viol, nq, lines, expect = [], 0, [], []
    distinct = set()
    for c, r in zip(cases, real):
        meta = c["meta"]
        cols, rows = meta["cols"], meta["rows"]
        if "results" not in r:
            viol.append({"kind": "engine-died", "case": c["id"], "result": r, "stmts": c["stmts"]})
            continue
        res = r["results"]
        base = meta["nstmts_before"]
        bad_setup = [x for x in res[:base] if not x.get("ok")]
        if bad_setup or len(res) < len(c["stmts"]):
            viol.append({"kind": "setup-or-run-failed", "case": c["id"], "result": [x for x in res if not x.get("ok")][:2],
                         "stmts": c["stmts"][:3] + ["..."]})
            continue
        types = [t for _, t in cols]
        for qi, q in enumerate(meta["queries"]):
            out = res[base + 2 * qi + 1]
            nq += 1
            if not out.get("ok"):
                viol.append({"kind": "query-error", "case": c["id"], "sql": q["sql"], "result": out, "stmts": c["stmts"]})
                continue
            kcols = []
            for k, desc, nulls in q["keys"]:
                # NULLs are the largest value by default: last in ASC, first in DESC
                nf = (nulls == "first") if nulls is not None else desc
                kcols.append("%s,%d,%d" % (spec_kty(types[k]), desc, nf))
            keyidx = [k for k, _, _ in q["keys"]]
            lines.append("cols " + " ".join(kcols))
            lines.append("off %d" % (q["off"] or 0))
            lines.append("lim %s" % ("none" if q["lim"] is None else q["lim"]))
            for row in rows:
                lines.append("in " + " ".join(cell_to_model(HT[types[k]], row[k]) for k in keyidx) + " | " +
                             " ".join(cell_to_model(HT[t], v) for t, v in zip(types, row)))
            for row in out["rows"]:
                lines.append("out " + " ".join(cell_to_model(HT[types[k]], row[k]) for k in keyidx) + " | " +
                             " ".join(cell_to_model(HT[t], v) for t, v in zip(types, row)))
            lines.append("end")
            expect.append((c, q, out))
            distinct.add((tuple(kcols), q["lim"], q["off"], len(rows)))
        # LIMIT/OFFSET without ORDER BY
        out = res[-1]
        lim0, off0 = meta["nolimit"]
        nq += 1
        if not out.get("ok"):
            viol.append({"kind": "query-error", "case": c["id"], "sql": c["stmts"][-1], "result": out})
        else:
            want = max(0, min(lim0, len(rows) - off0))
            inp = sorted(json.dumps(x) for x in rows)
            got = [json.dumps(x) for x in out["rows"]]
            ok = len(got) == want
            pool = list(inp)
            for g in got:
                if g in pool:
                    pool.remove(g)
                else:
                    ok = False
            if not ok:
                viol.append({"kind": "limit-without-order", "case": c["id"], "sql": c["stmts"][-1], "want_rows": want,
                             "got_rows": len(got), "stmts": c["stmts"]})
    verdicts = common.run_model(gmodel, "orderslice", lines, timeout=1800)
    for (c, q, out), v in zip(expect, verdicts):
        if v != "OK":
            viol.append({"kind": "order-by-slice", "verdict": v, "case": c["id"], "sql": q["sql"],
                         "config": {"batch_size": c["meta"]["batch"], "partitions": c["meta"]["parts"], "optimizer": q["opt"]},
                         "stmts": c["stmts"][:c["meta"]["nstmts_before"]] + ["set enable_optimizer to %s" % str(q["opt"]).lower(), q["sql"]],
                         "got": out["rows"][:50]})
    sample = None
    if expect:
        c, q, out = expect[0]
        sample = {"sql": q["sql"], "table_rows": len(c["meta"]["rows"]), "batch_size": c["meta"]["batch"],
                  "partitions": c["meta"]["parts"], "first_rows": out["rows"][:3]}
    return {"queries": nq, "distinct": len(distinct), "violations": viol, "sample": sample}


# ---------------------------------------------------------------- failing-input search
def search_misordered(ctx, tb, gverif, gmodel):
    """Property-level search on the implementation: order candidate values with the REAL encoder and
    look for a pair whose byte order contradicts the declared order; confirm through SQL."""
    found = []
    cand = {
        "f64": ["F%x" % b for b in gen.F64_POOL] + ["F%x" % (0x3ff0000000000000 + (i << 20)) for i in range(1, 600, 7)],
        "f32": ["F%x" % b for b in gen.F32_POOL],
        "f16": ["F%x" % b for b in range(0, 65536, 257)] + ["F7c00", "Ffc00", "F7e00", "F0", "F8000", "F1", "F8001"],
        "bool": ["B0", "B1"],
        "i8": ["I%d" % x for x in range(-128, 128, 5)] + ["I127"],
        "i16": ["I%d" % x for x in gen.int_pool(2, True)], "i32": ["I%d" % x for x in gen.int_pool(4, True)],
        "i64": ["I%d" % x for x in gen.int_pool(8, True)], "u8": ["I%d" % x for x in gen.int_pool(1, False)],
        "u16": ["I%d" % x for x in gen.int_pool(2, False)], "u32": ["I%d" % x for x in gen.int_pool(4, False)],
        "u64": ["I%d" % x for x in gen.int_pool(8, False)],
        "utf8": ["S" + s for s in gen.STR_POOL],
    }
    sqlname = {"f64": "f64", "f32": "f32", "bool": "bool", "i8": "i8", "i16": "i16", "i32": "i32", "i64": "i64",
               "u8": "u8", "u16": "u16", "u32": "u32", "u64": "u64", "utf8": "text"}
    for ht, vals in cand.items():
        vals = sorted(set(vals))
        for desc in (False, True):
            case = {"id": "x", "cols": [{"type": ht, "desc": desc, "nulls_first": False, "values": vals}]}
            r = common.run_harness(gverif, "sortkey", [case])[0]
            if "rows" not in r:
                continue
            order = sorted(range(len(vals)), key=lambda i: r["rows"][i])
            # consecutive pairs in REAL byte order must not be Gt in the declared order
            kt = spec_kty(sqlname[ht]) if ht in sqlname else model_kty(ht, tb)
            lines = ["cols %s,%d,0" % (kt, desc)]
            pairs = []
            for a, b in zip(order, order[1:]):
                if r["rows"][a] == r["rows"][b]:
                    continue
                lines.append("speccmp %s | %s" % (cell_to_model(ht, vals[a]), cell_to_model(ht, vals[b])))
                pairs.append((a, b))
            outs = common.run_model(gmodel, "sortkey", lines)
            for (a, b), o in zip(pairs, outs):
                if o == "Gt":
                    w = {"type": ht, "desc": desc, "first": vals[a], "second": vals[b],
                         "bytes_first": r["rows"][a], "bytes_second": r["rows"][b],
                         "what": "real key bytes order `first` before `second` but the declared order says first > second"}
                    if ht in sqlname:
                        t = sqlname[ht]
                        stmts = [gen.create_table("t", [("a", t)])] + gen.insert_rows("t", [("a", t)], [[vals[b]], [vals[a]]]) + \
                                ["select a from t order by a%s" % (" desc" if desc else "")]
                        rr = common.run_harness(gverif, "sql", [{"id": "c", "mode": "threaded", "threads": 1, "stmts": stmts}])[0]
                        w["sql"] = stmts
                        w["sql_result"] = rr.get("results", [{}])[-1].get("rows")
                    found.append(w)
                    break
            if found and found[-1]["type"] == ht:
                break
    return found


def run(ctx):
    t0 = time.time()
    rng = common.Rng(ctx["seed"])
    out = {"violations": [], "known": [], "assumptions": []}
    tb = tables.regenerate()
    gverif, _ = common.build_harness()
    # --- proof stage
    pr = common.coq_props(PROPS)
    audit = common.audit_sources()
    obligations = pr["declared"]
    bad_assum = common.check_assumptions(pr) if pr["ok"] else []
    discharged = len(obligations) if pr["ok"] and not bad_assum and not audit else 0
    gmodel = common.build_ocaml("sort")
    # --- correspondence stage
    k1 = stage_keys(ctx, rng, tb, gverif, gmodel)
    k2 = stage_sql(ctx, rng, gverif, gmodel)
    for v in k2["violations"]:
        out["violations"].append({"what": v["kind"], "replay": v, "no_input": False})
    proof_broken = (not pr["ok"]) or bad_assum or audit
    if proof_broken or k1["mismatches"]:
        found = search_misordered(ctx, tb, gverif, gmodel)
        reason = {"proof_failed_at": pr.get("failed_at"), "log_tail": pr["log"][-1500:] if not pr["ok"] else "",
                  "assumption_problems": bad_assum, "audit": audit, "key_byte_mismatches": k1["mismatches"][:5],
                  "tables": tb}
        if found:
            for w in found:
                out["violations"].append({"what": "sort key misorders values", "replay": dict(w, broken=reason), "no_input": False})
        else:
            what = "theorem(s) in %s no longer check" % PROPS if proof_broken else \
                "correspondence sortkey bytes (real SortLayout vs model/SortKey.v) no longer holds"
            out["violations"].append({"what": what, "replay": reason, "no_input": True})
    out["coverage"] = {
        "obligations": len(obligations), "discharged": discharged,
        "checker_cmd": "cd coq && coq_makefile -f _CoqProject -o Makefile && make -j16 props/C08.vo  (Print Assumptions parsed; Admitted/Axiom audit over coq/)",
        "trusted_base": ["Coq 8.16.1 kernel (vm_compute used in two closed witness lemmas)",
                         "vlib/tables.py source scanner for the shift / bool / prefix constants",
                         "extraction (ExtrOcamlBasic only) + ocaml/driver.ml parsing/printing",
                         "harness/src/sortkey.rs, sql.rs; hook SortLayout::verif_encode_keys",
                         "modelled not verified: sorted_block.rs / binary_merge.rs pointer code (sort and merge are modelled at the algorithm level: model/SortSpec.v, model/Merge.v)"],
        "theorems": obligations,
        "evaluations": k1["rows"] + k2["queries"],
        "distinct_nontrivial": k1["distinct"] + k2["distinct"],
        "rule": "K1: every generated row's real key bytes compared with the extracted model's bytes (all 2^16 patterns of i16/u16/f16 x 4 direction/null placements, all 2^8 of i8/u8, boundary-biased random rows of 1-4 mixed-type columns); distinct = distinct byte strings. K2: ORDER BY/LIMIT/OFFSET queries on the real engine, each checked by the extracted check_order_slice; distinct = distinct (key spec, limit, offset, table size).",
        "samples": [k1["sample"], k2["sample"]],
        "key_rows_compared": k1["rows"], "key_cases": k1["cases"], "sql_queries_checked": k2["queries"],
        "source_constants": tb, "exhaustive": False,
    }
    out["assumptions"] = ["float text parsing (Rust f64::from_str) delivers the intended bit patterns into tables; the check reads the table back, so a deviation shows as a setup failure",
                          "a single NaN payload is used (text cannot carry others)"]
    out["wall"] = time.time() - t0
    return out
