"""Regenerate coq/gen/Tables.v from /repo's *current* source on every run.

This is the translator half of the model/code tie for constants that cannot be
observed through behaviour (a shift amount, a threshold): a small scanner reads
them out of the Rust source.  A constant it cannot find is emitted as a
`None`-valued option so that every theorem depending on it stops checking
(rather than silently keeping an old value)."""
import os, re
from . import common

SRC = os.path.join(common.REPO, "crates")


def _read(rel):
    try:
        return open(os.path.join(SRC, rel)).read()
    except FileNotFoundError:
        return ""


def _impl_block(src, header_re):
    m = re.search(header_re, src)
    if not m:
        return ""
    i = src.find("{", m.end() - 1)
    depth, j = 0, i
    while j < len(src):
        if src[j] == "{":
            depth += 1
        elif src[j] == "}":
            depth -= 1
            if depth == 0:
                return src[i:j + 1]
        j += 1
    return ""


def scan():
    t = {}
    sl = _read("glaredb_core/src/arrays/sort/sort_layout.rs")
    for ty in ("f16", "f32", "f64"):
        blk = _impl_block(sl, r"impl\s+ComparableEncode\s+for\s+%s\s*\{" % ty)
        m = re.search(r"bits\s*\^\s*\(\(\(bits\s*>>\s*(\d+)\)\s*as\s*u\d+\)\s*>>\s*(\d+)\)", blk)
        t[ty + "_shift"] = int(m.group(1)) if m else None
        t[ty + "_shift2"] = int(m.group(2)) if m else None
    blk = _impl_block(sl, r"impl\s+ComparableEncode\s+for\s+bool\s*\{")
    m = re.search(r"if\s+\*self\s*\{\s*buf\[0\]\s*=\s*(\d+);\s*\}\s*else\s*\{\s*buf\[0\]\s*=\s*(\d+);", blk)
    t["bool_true_key"] = int(m.group(1)) if m else None
    t["bool_false_key"] = int(m.group(2)) if m else None
    m = re.search(r"struct\s+StringPrefix\s*\{\s*prefix:\s*\[u8;\s*(\d+)\]", sl)
    t["string_prefix_width"] = int(m.group(1)) if m else None
    m = re.search(r"b\[0\]\s*\^=\s*(\d+);\s*// Flip sign bit", sl)
    t["sign_flip_mask"] = int(m.group(1)) if m else None
    return t


def render(t):
    lines = ["(* GENERATED on every run by vlib/tables.py from /repo's working tree. Do not edit. *)",
             "From Coq Require Import NArith.", "Open Scope N_scope.", ""]
    for k in sorted(t):
        v = t[k]
        if v is None:
            lines.append("Definition %s : option N := None." % k)
        else:
            lines.append("Definition %s : option N := Some %d." % (k, v))
    lines.append("")
    return "\n".join(lines)


def regenerate():
    t = scan()
    body = render(t)
    path = os.path.join(common.COQ, "gen", "Tables.v")
    os.makedirs(os.path.dirname(path), exist_ok=True)
    with common.Lock("coq"):
        cur = open(path).read() if os.path.exists(path) else None
        if cur != body:
            open(path, "w").write(body)
    return t
