"""Regenerate coq/gen/TablesNumfn.v from /repo's current source (topic `numfn`, C05 / C12).

Which of the two transcribed variants (model/NumFn.v) each function has today.  1 = the variant found first
(native operators / NULL / zero fill), 0 = the repaired variant, None = the source matches neither (every theorem
naming the constant stops checking and the check asks for a re-transcription):
  gcd_native            numeric/gcd.rs       1: `a.abs()`, `a % b`;  0: rem_checked + neg_checked, failure -> Err
  lcm_native            numeric/lcm.rs       1: `a.abs()`, `(abs_a / gcd) * abs_b`;  0: div_checked / mul_checked / neg_checked -> Err
  factorial_null        numeric/factorial.rs 1: negative input and overflow `put_null()`;  0: both fail the statement
  shr_zero_fill         binary/shr.rs        1: `checked_shr(b as u32).unwrap_or_default()`;  0: `None if b > 0 => (a >> (bits-1)) >> 1`
  d2d_scale_sub_native  cast/builtin/to_decimal.rs DecimalToDecimal::bind  1: `src_meta.scale - target_meta.scale`;  0: checked_sub -> Err"""
import os, re
from . import common

SRC = os.path.join(common.REPO, "crates", "glaredb_core", "src")


def _read(rel):
    try:
        return open(os.path.join(SRC, rel)).read()
    except FileNotFoundError:
        return ""


def _closure(src):
    """text from the executor call of `fn execute` to the end of the impl"""
    m = re.search(r"fn execute\(", src)
    return src[m.start():] if m else ""


def scan():
    t = {}
    fails = lambda b: bool(re.search(r"failed\s*=\s*true", b) and re.search(r"if\s+failed\s*\{\s*return\s+Err\(", b))
    b = _closure(_read("functions/scalar/builtin/numeric/gcd.rs"))
    nat = bool(re.search(r"let mut a = a\.abs\(\);", b) and re.search(r"let mut b = b\.abs\(\);", b) and re.search(r"b = a % b;", b))
    chk = bool(re.search(r"b = a\.rem_checked\(b\)\.unwrap_or", b) and re.search(r"a\.neg_checked\(\)", b) and fails(b)
               and not re.search(r"\.abs\(\)", b) and not re.search(r"a % b", b))
    t["gcd_native"] = 1 if nat and not chk else 0 if chk and not nat else None
    b = _closure(_read("functions/scalar/builtin/numeric/lcm.rs"))
    nat = bool(re.search(r"let abs_a = a\.abs\(\);", b) and re.search(r"\(abs_a / gcd\) \* abs_b", b) and re.search(r"y = x % y;", b))
    chk = bool(re.search(r"y = x\.rem_checked\(y\)\.unwrap_or", b) and re.search(r"\.div_checked\(gcd\)", b) and re.search(r"q\.mul_checked\(b\)", b)
               and re.search(r"v\.neg_checked\(\)", b) and fails(b) and not re.search(r"\.abs\(\)", b))
    t["lcm_native"] = 1 if nat and not chk else 0 if chk and not nat else None
    b = _closure(_read("functions/scalar/builtin/numeric/factorial.rs"))
    has_loop = bool(re.search(r"for i in 2\.\.=n", b) and re.search(r"result\.checked_mul\(i as i128\)", b) and re.search(r"if n < 0", b))
    nat = has_loop and len(re.findall(r"buf\.put_null\(\)", b)) == 2 and not re.search(r"return\s+Err\(", b)
    chk = has_loop and not re.search(r"put_null", b) and len(re.findall(r"return\s+Err\(", b)) >= 2 \
        and bool(re.search(r"negative\s*=\s*true", b) and re.search(r"overflow\s*=\s*true", b))
    t["factorial_null"] = 1 if nat and not chk else 0 if chk and not nat else None
    b = _closure(_read("functions/scalar/builtin/binary/shr.rs"))
    nat = bool(re.search(r"a\.checked_shr\(b as u32\)\.unwrap_or_default\(\)", b))
    chk = bool(re.search(r"match a\.checked_shr\(b as u32\)", b) and re.search(r"None if b > 0 => \(a >> \(size_of::<S::StorageType>\(\) as i32 \* 8 - 1\)\) >> 1", b)
               and re.search(r"None => Default::default\(\)", b))
    t["shr_zero_fill"] = 1 if nat and not chk else 0 if chk and not nat else None
    td = _read("functions/cast/builtin/to_decimal.rs")
    m = re.search(r"CastFunction for DecimalToDecimal<D1, D2>.*?fn bind\(.*?\n    \}", td, re.S)
    b = m.group(0) if m else ""
    nat = bool(re.search(r"let scale_diff = src_meta\.scale - target_meta\.scale;", b))
    chk = bool(re.search(r"let scale_diff = src_meta\s*\.scale\s*\.checked_sub\(target_meta\.scale\)\s*\.ok_or_else\(", b))
    t["d2d_scale_sub_native"] = 1 if nat and not chk else 0 if chk and not nat else None
    return t


def render(t):
    lines = ["(* GENERATED on every run by vlib/tables_numfn.py from /repo's working tree. Do not edit. *)",
             "From Coq Require Import ZArith.", "Open Scope Z_scope.", ""]
    for k in sorted(t):
        v = t[k]
        lines.append("Definition %s : option Z := %s." % (k, "None" if v is None else "Some %d" % v))
    lines.append("")
    return "\n".join(lines)


def regenerate():
    t = scan()
    body = render(t)
    path = os.path.join(common.COQ, "gen", "TablesNumfn.v")
    os.makedirs(os.path.dirname(path), exist_ok=True)
    with common.Lock("coq"):
        cur = open(path).read() if os.path.exists(path) else None
        if cur != body:
            open(path, "w").write(body)
    return t


if __name__ == "__main__":
    import json
    print(json.dumps(regenerate(), indent=1))
