"""Regenerate coq/gen/TablesNumfn.v from /repo's current source (topic `numfn`, C05 / C12).

Which of the two transcribed variants (model/NumFn.v) each function has today.  1 = the variant found first
(native operators / NULL / zero fill), 0 = the repaired variant, None = the source matches neither (every theorem
naming the constant stops checking and the check asks for a re-transcription):
  gcd_native            numeric/gcd.rs       1: `a.abs()`, `a % b`;  0: rem_checked + neg_checked, failure -> Err
  lcm_native            numeric/lcm.rs       1: `a.abs()`, `(abs_a / gcd) * abs_b`;  0: div_checked / mul_checked / neg_checked -> Err
  factorial_null        numeric/factorial.rs 1: negative input and overflow `put_null()`;  0: both fail the statement
  shr_zero_fill         binary/shr.rs        1: `checked_shr(b as u32).unwrap_or_default()`;  0: `None if b > 0 => (a >> (bits-1)) >> 1`
  d2d_scale_sub_native  cast/builtin/to_decimal.rs DecimalToDecimal::bind  1: `src_meta.scale - target_meta.scale`;  0: checked_sub -> Err
Decimal comparisons (model/NumFn.v cparams):
  decbind_i8            scalar/builtin/comparison.rs decimal_bind  1: digit counts in i8 (`(l_meta.precision as i8) - l_meta.scale`);
                        0: in i16 with `i16::clamp(max_int_digits + max_scale as i16, 1, D::MAX_PRECISION as i16)`
  u64_dec_precision     arrays/datatype.rs DecimalTypeMeta::new_for_datatype_id(UInt64).precision (19 or 20)
  wide_dec128           cast/builtin/to_decimal.rs  0: Int64, UInt64, Decimal64 -> Decimal128 use TO_DECIMAL128_CAST_RULE and UInt64 -> Decimal64
                        is implicit; 1: Int64 / UInt64 -> Decimal128 use INT64_TO_DECIMAL128_CAST_RULE (f64 score - 1), Decimal64 -> Decimal128 uses
                        DECIMAL64_TO_DECIMAL128_CAST_RULE (f64 score + 2; together 363 > 362) and UInt64 -> Decimal64 is Explicit"""
import os, re
from . import common

SRC = os.path.join(common.REPO, "crates", "glaredb_core", "src")


def _read(rel):
    try:
        return open(os.path.join(SRC, rel)).read()
    except FileNotFoundError:
        return ""


def _closure(src):
    """text from the executor call of `fn execute` to the end of the impl"""
    m = re.search(r"fn execute\(", src)
    return src[m.start():] if m else ""


def scan():
    t = {}
    fails = lambda b: bool(re.search(r"failed\s*=\s*true", b) and re.search(r"if\s+failed\s*\{\s*return\s+Err\(", b))
    b = _closure(_read("functions/scalar/builtin/numeric/gcd.rs"))
    nat = bool(re.search(r"let mut a = a\.abs\(\);", b) and re.search(r"let mut b = b\.abs\(\);", b) and re.search(r"b = a % b;", b))
    chk = bool(re.search(r"b = a\.rem_checked\(b\)\.unwrap_or", b) and re.search(r"a\.neg_checked\(\)", b) and fails(b)
               and not re.search(r"\.abs\(\)", b) and not re.search(r"a % b", b))
    t["gcd_native"] = 1 if nat and not chk else 0 if chk and not nat else None
    b = _closure(_read("functions/scalar/builtin/numeric/lcm.rs"))
    nat = bool(re.search(r"let abs_a = a\.abs\(\);", b) and re.search(r"\(abs_a / gcd\) \* abs_b", b) and re.search(r"y = x % y;", b))
    chk = bool(re.search(r"y = x\.rem_checked\(y\)\.unwrap_or", b) and re.search(r"\.div_checked\(gcd\)", b) and re.search(r"q\.mul_checked\(b\)", b)
               and re.search(r"v\.neg_checked\(\)", b) and fails(b) and not re.search(r"\.abs\(\)", b))
    t["lcm_native"] = 1 if nat and not chk else 0 if chk and not nat else None
    b = _closure(_read("functions/scalar/builtin/numeric/factorial.rs"))
    has_loop = bool(re.search(r"for i in 2\.\.=n", b) and re.search(r"result\.checked_mul\(i as i128\)", b) and re.search(r"if n < 0", b))
    nat = has_loop and len(re.findall(r"buf\.put_null\(\)", b)) == 2 and not re.search(r"return\s+Err\(", b)
    chk = has_loop and not re.search(r"put_null", b) and len(re.findall(r"return\s+Err\(", b)) >= 2 \
        and bool(re.search(r"negative\s*=\s*true", b) and re.search(r"overflow\s*=\s*true", b))
    t["factorial_null"] = 1 if nat and not chk else 0 if chk and not nat else None
    b = _closure(_read("functions/scalar/builtin/binary/shr.rs"))
    nat = bool(re.search(r"a\.checked_shr\(b as u32\)\.unwrap_or_default\(\)", b))
    chk = bool(re.search(r"match a\.checked_shr\(b as u32\)", b) and re.search(r"None if b > 0 => \(a >> \(size_of::<S::StorageType>\(\) as i32 \* 8 - 1\)\) >> 1", b)
               and re.search(r"None => Default::default\(\)", b))
    t["shr_zero_fill"] = 1 if nat and not chk else 0 if chk and not nat else None
    td = _read("functions/cast/builtin/to_decimal.rs")
    m = re.search(r"CastFunction for DecimalToDecimal<D1, D2>.*?fn bind\(.*?\n    \}", td, re.S)
    b = m.group(0) if m else ""
    nat = bool(re.search(r"let scale_diff = src_meta\.scale - target_meta\.scale;", b))
    chk = bool(re.search(r"let scale_diff = src_meta\s*\.scale\s*\.checked_sub\(target_meta\.scale\)\s*\.ok_or_else\(", b))
    t["d2d_scale_sub_native"] = 1 if nat and not chk else 0 if chk and not nat else None
    # ---- decimal comparisons
    cmp = _read("functions/scalar/builtin/comparison.rs")
    m = re.search(r"fn decimal_bind<D>.*?\n\}", cmp, re.S)
    b = m.group(0) if m else ""
    nat = bool(re.search(r"\(l_meta\.precision as i8\) - l_meta\.scale", b) and re.search(r"\(r_meta\.precision as i8\) - r_meta\.scale", b)
               and re.search(r"\(max_int_digits \+ max_scale\) as u8", b) and re.search(r"if new_prec > D::MAX_PRECISION", b))
    chk = bool(re.search(r"\(l_meta\.precision as i16\) - \(l_meta\.scale as i16\)", b) and re.search(r"\(r_meta\.precision as i16\) - \(r_meta\.scale as i16\)", b)
               and re.search(r"i16::clamp\(max_int_digits \+ max_scale as i16, 1, D::MAX_PRECISION as i16\) as u8", b))
    shape = bool(re.search(r"let max_scale = i8::max\(l_meta\.scale, r_meta\.scale\);", b) and re.search(r"if l_meta != new_meta", b)
                 and re.search(r"if r_meta != new_meta", b) and re.search(r"if l_meta != r_meta", b))
    t["decbind_i8"] = (1 if nat and not chk else 0 if chk and not nat else None) if shape else None
    dt = _read("arrays/datatype.rs")
    m = re.search(r"fn\s+new_for_datatype_id.*?\n    \}", dt, re.S)
    blk = m.group(0) if m else ""
    m = re.search(r"DataTypeId::UInt64\s*=>\s*\{.*?precision:\s*(\d+),\s*scale:\s*(\d+)", blk, re.S)
    t["u64_dec_precision"] = int(m.group(1)) if m and m.group(2) == "0" and int(m.group(1)) in (19, 20) else None
    cm = _read("functions/cast/mod.rs")
    rule = lambda src, dst: (re.search(r"RawCastFunction::new\(DataTypeId::%s, &\w+::<\w+, %s>::new\(\), ([A-Za-z0-9_:]+)," % (src, dst), td) or [None, None])[1]
    r = [rule("Int64", "Decimal128Type"), rule("UInt64", "Decimal128Type"), rule("Decimal64", "Decimal128Type"), rule("UInt64", "Decimal64Type"),
         rule("Int64", "Decimal64Type")]
    wide_def = bool(re.search(r"pub const INT64_TO_DECIMAL128_CAST_RULE: CastRule =\s*CastRule::Implicit\(DEFAULT_IMPLICIT_CAST_SCORES\.f64 - 1\);", cm)
                    and re.search(r"pub const DECIMAL64_TO_DECIMAL128_CAST_RULE: CastRule =\s*CastRule::Implicit\(DEFAULT_IMPLICIT_CAST_SCORES\.f64 \+ 2\);", cm))
    scores = bool(re.search(r"f64: 181,", cm) and re.search(r"decimal64: 141,", cm) and re.search(r"decimal128: 140,", cm))
    if not scores or r[4] != "CastRule::Explicit":
        t["wide_dec128"] = None
    elif r[:4] == ["TO_DECIMAL128_CAST_RULE"] * 3 + ["TO_DECIMAL64_CAST_RULE"]:
        t["wide_dec128"] = 0
    elif r[:4] == ["INT64_TO_DECIMAL128_CAST_RULE"] * 2 + ["DECIMAL64_TO_DECIMAL128_CAST_RULE", "CastRule::Explicit"] and wide_def:
        t["wide_dec128"] = 1
    else:
        t["wide_dec128"] = None
    return t


def render(t):
    lines = ["(* GENERATED on every run by vlib/tables_numfn.py from /repo's working tree. Do not edit. *)",
             "From Coq Require Import ZArith.", "Open Scope Z_scope.", ""]
    for k in sorted(t):
        v = t[k]
        lines.append("Definition %s : option Z := %s." % (k, "None" if v is None else "Some %d" % v))
    lines.append("")
    return "\n".join(lines)


def regenerate():
    t = scan()
    body = render(t)
    path = os.path.join(common.COQ, "gen", "TablesNumfn.v")
    os.makedirs(os.path.dirname(path), exist_ok=True)
    with common.Lock("coq"):
        cur = open(path).read() if os.path.exists(path) else None
        if cur != body:
            open(path, "w").write(body)
    return t


if __name__ == "__main__":
    import json
    print(json.dumps(regenerate(), indent=1))
